/-
Executable model of the point-lookup / write paths of `TieredEngine`
(engine/src/tiered_engine.rs), `HotTier` (hot_tier.rs), `VectorCache` + `LruIndex`
(vector_cache.rs, lru_index.rs) and the three cache strategies (cache_strategy.rs).

Core Lean only (the driver links this file into a native executable).

Conventions
* a vector is the list of its IEEE-754 bit patterns (`List Nat`), never interpreted;
* metadata is a list of (key,value) pairs kept sorted by key with unique keys;
* `digest : Vec → D` is a parameter (the implementation uses a 128-bit Murmur-style digest);
  theorems that need it assume `Function.Injective digest` explicitly;
* values the model cannot compute (float normalisation, admission decisions of the learned
  predictor, rejections by the ANN index) arrive as *oracle inputs* on each operation and the
  theorems quantify over all of them.
-/
import KyroModel.Base.Assoc
import KyroModel.Store.Filter

namespace KyroModel

abbrev Vec := List Nat
abbrev Meta := List (String × String)

/-! ### Metadata maps -/

def Meta.set (k v : String) : Meta → Meta
  | [] => [(k, v)]
  | (k', v') :: rest =>
    if k < k' then (k, v) :: (k', v') :: rest
    else if k = k' then (k, v) :: rest
    else (k', v') :: Meta.set k v rest

/-- `HashMap::extend`: later bindings win. -/
def Meta.merge (old new : Meta) : Meta := new.foldl (fun acc p => Meta.set p.1 p.2 acc) old

/-- canonical form of a client-supplied map -/
def Meta.norm (m : Meta) : Meta := Meta.merge [] m

/-! ### Coherence tokens -/

structure Token (D : Type) where
  ver : Nat
  dig : D
deriving DecidableEq, Repr

/-! ### Canonical store (abstract view of `HnswBackend`'s DocumentStore) -/

structure ColdDoc where
  vec : Vec
  md : Meta
  ver : Nat
deriving DecidableEq, Repr

abbrev Cold := List (Nat × ColdDoc)

/-- `HnswBackend::insert` on an accepted input: upsert; version = prior live version + 1,
    a delete followed by a re-insert starts again at 1. -/
def Cold.insert (c : Cold) (id : Nat) (v : Vec) (m : Meta) : Cold :=
  let ver := match alookup id c with
    | some d => d.ver + 1
    | none => 1
  aset id ⟨v, m, ver⟩ c

def Cold.delete (c : Cold) (id : Nat) : Cold × Bool :=
  match alookup id c with
  | some _ => (aerase id c, true)
  | none => (c, false)

def Cold.updateMeta (c : Cold) (id : Nat) (m : Meta) (merge : Bool) : Cold × Bool :=
  match alookup id c with
  | some d => (aset id { d with md := if merge then Meta.merge d.md m else m } c, true)
  | none => (c, false)

/-! ### L1a document cache: `VectorCache` with its `LruIndex`, oldest entry first -/

structure CEntry (D : Type) where
  vec : Vec
  tok : Token D

structure VCache (D : Type) where
  entries : List (Nat × CEntry D)     -- LRU order, head = least recently used
  cap : Nat

namespace VCache
variable {D : Type}

def peek (c : VCache D) (id : Nat) : Option (CEntry D) := alookup id c.entries

/-- `VectorCache::get`: a hit moves the key to the MRU end. -/
def get (c : VCache D) (id : Nat) : VCache D × Option (CEntry D) :=
  match alookup id c.entries with
  | some e => ({ c with entries := aerase id c.entries ++ [(id, e)] }, some e)
  | none => (c, none)

/-- `VectorCache::insert`: update in place + promote, else evict the LRU entry when
    `len >= capacity`, then append. -/
def insert (c : VCache D) (id : Nat) (e : CEntry D) : VCache D :=
  match alookup id c.entries with
  | some _ => { c with entries := aerase id c.entries ++ [(id, e)] }
  | none =>
    let kept := if c.entries.length ≥ c.cap then c.entries.tail else c.entries
    { c with entries := kept ++ [(id, e)] }

def remove (c : VCache D) (id : Nat) : VCache D := { c with entries := aerase id c.entries }

def size (c : VCache D) : Nat := c.entries.length
end VCache

/-! ### Cache strategies -/

inductive StratKind | lru | learned | ab
deriving DecidableEq, Repr

/-- One `VectorCache` for LRU / learned, two for the A/B splitter (even ids → first). -/
structure L1a (D : Type) where
  kind : StratKind
  a : VCache D
  b : VCache D        -- only used when `kind = ab`

namespace L1a
variable {D : Type}

def useB (l : L1a D) (id : Nat) : Bool := l.kind == .ab && id % 2 == 1

def peek (l : L1a D) (id : Nat) : Option (CEntry D) :=
  if l.useB id then l.b.peek id else l.a.peek id

def get (l : L1a D) (id : Nat) : L1a D × Option (CEntry D) :=
  if l.useB id then
    let (b', r) := l.b.get id; ({ l with b := b' }, r)
  else
    let (a', r) := l.a.get id; ({ l with a := a' }, r)

def insert (l : L1a D) (id : Nat) (e : CEntry D) : L1a D :=
  if l.useB id then { l with b := l.b.insert id e } else { l with a := l.a.insert id e }

/-- `invalidate`: the A/B splitter invalidates both caches. -/
def invalidate (l : L1a D) (id : Nat) : L1a D :=
  { l with a := l.a.remove id, b := l.b.remove id }

def size (l : L1a D) : Nat :=
  if l.kind == .ab then l.a.size + l.b.size else l.a.size
end L1a

/-! ### Hot tier -/

structure HotDoc (D : Type) where
  vec : Vec
  md : Meta
  tok : Token D

abbrev Hot (D : Type) := List (Nat × HotDoc D)

/-! ### Engine state -/

structure TCfg where
  hard : Nat          -- hot_tier_hard_limit
  soft : Nat          -- hot_tier_max_size
  dim : Nat

structure TState (D : Type) where
  cold : Cold
  hot : Hot D
  l1a : L1a D
  cfg : TCfg
  /-- number of `query_cache.clear()` calls so far (ghost counter used by the C07 model) -/
  qcClears : Nat := 0

inductive CState | matched | tokenMismatch | localCorruption | missing
deriving DecidableEq, Repr

section
variable {D : Type} [DecidableEq D] (digest : Vec → D)

def coldToken (d : ColdDoc) : Token D := ⟨d.ver, digest d.vec⟩

/-- `TieredEngine::canonical_vector_state` -/
def canonicalState (cold : Cold) (id : Nat) (v : Vec) (t : Token D) : CState :=
  match alookup id cold with
  | none => .missing
  | some d =>
    if coldToken digest d ≠ t then .tokenMismatch
    else if digest v ≠ t.dig then .localCorruption
    else .matched

/-- `discard_stale_hot_mirror` -/
def discardHot (s : TState D) (id : Nat) : TState D :=
  { s with hot := aerase id s.hot, l1a := s.l1a.invalidate id, qcClears := s.qcClears + 1 }

inductive Tier | cache | hot | cold
deriving DecidableEq, Repr

/-- `cache_strategy.insert_cached` after a positive admission decision -/
def admitTo (s : TState D) (adm : Bool) (id : Nat) (v : Vec) (t : Token D) : TState D :=
  if adm then { s with l1a := s.l1a.insert id ⟨v, t⟩ } else s

/-- Layer 1 of `query_with_source`: L1a `get_cached` + canonical check (a stale entry is
    invalidated). -/
def queryL1 (s : TState D) (id : Nat) : TState D × Option Vec :=
  let (l1, hit) := s.l1a.get id
  let s1 : TState D := { s with l1a := l1 }
  match hit with
  | some c =>
    match canonicalState digest s1.cold id c.vec c.tok with
    | .matched => (s1, some c.vec)
    | _ => ({ s1 with l1a := s1.l1a.invalidate id }, none)
  | none => (s1, none)

/-- Layer 2: hot tier `get_with_coherence` + canonical check + L1a admission. -/
def queryL2 (s : TState D) (id : Nat) (adm : Bool) : TState D × Option Vec :=
  match alookup id s.hot with
  | some h =>
    match canonicalState digest s.cold id h.vec h.tok with
    | .matched => (admitTo s adm id h.vec h.tok, some h.vec)
    | .tokenMismatch | .localCorruption => (discardHot s id, none)
    | .missing => (s, none)
  | none => (s, none)

/-- Layer 3: canonical fetch + L1a admission. -/
def queryL3 (s : TState D) (id : Nat) (adm : Bool) : TState D × Option Vec :=
  match alookup id s.cold with
  | some d => (admitTo s adm id d.vec (coldToken digest d), some d.vec)
  | none => (s, none)

/-- `TieredEngine::query_with_source` (circuit breakers closed).  `adm` is the value
    `should_cache` returns if it is consulted. -/
def query (s : TState D) (id : Nat) (adm : Bool) : TState D × Option (Vec × Tier) :=
  match queryL1 digest s id with
  | (s1, some v) => (s1, some (v, .cache))
  | (s1, none) =>
    match queryL2 digest s1 id adm with
    | (s2, some v) => (s2, some (v, .hot))
    | (s2, none) =>
      match queryL3 digest s2 id adm with
      | (s3, some v) => (s3, some (v, .cold))
      | (s3, none) => (s3, none)

/-- hot-tier leg shared by `get_document_with_metadata` / `get_embedding_cache_aware` -/
def hotLeg (s : TState D) (id : Nat) : TState D × Option Vec :=
  match alookup id s.hot with
  | some h =>
    match canonicalState digest s.cold id h.vec h.tok with
    | .matched => (s, some h.vec)
    | .tokenMismatch | .localCorruption => (discardHot s id, none)
    | .missing => (s, none)
  | none => (s, none)

/-- `get_document_with_metadata` -/
def docWithMeta (s : TState D) (id : Nat) : TState D × Option (Vec × Meta) :=
  match alookup id s.cold with
  | some d0 =>
    match hotLeg digest s id with
    | (s1, some v) => (s1, some (v, d0.md))
    | (s1, none) =>
      match alookup id s1.cold with
      | some d => (s1, some (d.vec, d0.md))
      | none => (s1, none)
  | none => (s, none)

/-- cache leg of `get_embedding_cache_aware` (`peek_cached`: no LRU promotion) -/
def peekLeg (s : TState D) (id : Nat) : TState D × Option Vec :=
  match s.l1a.peek id with
  | some c =>
    if canonicalState digest s.cold id c.vec c.tok = .matched then (s, some c.vec)
    else ({ s with l1a := s.l1a.invalidate id }, none)
  | none => (s, none)

/-- `get_embedding_cache_aware` -/
def embAware (s : TState D) (id : Nat) : TState D × Option Vec :=
  match peekLeg digest s id with
  | (s1, some v) => (s1, some v)
  | (s1, none) =>
    match hotLeg digest s1 id with
    | (s2, some v) => (s2, some v)
    | (s2, none) => (s2, (alookup id s2.cold).map (·.vec))

def getMeta (s : TState D) (id : Nat) : Option Meta := (alookup id s.cold).map (·.md)

def existsDoc (s : TState D) (id : Nat) : Bool := (alookup id s.cold).isSome

/-- one element of `bulk_query_with_source`'s first pass -/
def bulkOne (s : TState D) (id : Nat) : TState D × Option (Vec × Meta × Tier) :=
  match alookup id s.hot with
  | some h =>
    match canonicalState digest s.cold id h.vec h.tok with
    | .matched =>
      match alookup id s.cold with
      | some d => (s, some (h.vec, d.md, .hot))
      | none => (s, none)
    | .tokenMismatch | .localCorruption => (discardHot s id, none)
    | .missing => (s, none)
  | none => (s, none)

/-- first pass of `bulk_query_with_source`: hot-tier hits with canonical check (and scrubbing) -/
def bulkPass (s : TState D) : List Nat → TState D × List (Option (Vec × Meta × Tier))
  | [] => (s, [])
  | id :: rest =>
    match bulkOne digest s id with
    | (s1, r) =>
      match bulkPass s1 rest with
      | (s2, rs) => (s2, r :: rs)

/-- second pass: the misses are fetched from the canonical store -/
def bulkFill (cold : Cold) : List Nat → List (Option (Vec × Meta × Tier)) →
    List (Option (Vec × Meta × Tier))
  | id :: ids, r :: rs =>
    (match r with
     | some x => some x
     | none => (alookup id cold).map fun d => (d.vec, d.md, Tier.cold)) :: bulkFill cold ids rs
  | _, _ => []

/-- `bulk_query_with_source` -/
def bulkQuery (s : TState D) (ids : List Nat) : TState D × List (Option (Vec × Meta × Tier)) :=
  match bulkPass digest s ids with
  | (s1, fp) => (s1, bulkFill s1.cold ids fp)

/-! ### Writes -/

/-- Drain reconciliation (`reconcile_drained_hot_tier_documents`).  A mirrored document whose
    id is canonical is dropped (cold stays authoritative; an embedding divergence invalidates
    L1a).  A mirror without canonical record is *repaired* by `cold.insert`; the repair is
    refused exactly when the vector's dimension is wrong (other refusals are excluded by the
    harness: poked vectors are finite, non-zero and pre-normalised).  Returns the state, the
    documents to re-insert, the success count and whether the query cache must be cleared. -/
def reconcile (s : TState D) (docs : List (Nat × HotDoc D)) :
    TState D × List (Nat × HotDoc D) × Nat × Bool :=
  docs.foldl
    (fun (acc : TState D × List (Nat × HotDoc D) × Nat × Bool) p =>
      let (st, failed, ok, clr) := acc
      let (id, h) := p
      match alookup id st.cold with
      | some d =>
        let tokDiv := coldToken digest d ≠ h.tok
        let embDiv := d.vec ≠ h.vec
        let mdDiv := d.md ≠ h.md
        let st1 := if embDiv then { st with l1a := st.l1a.invalidate id } else st
        (st1, failed, ok + 1, clr || decide tokDiv || decide embDiv || decide mdDiv)
      | none =>
        if h.vec.length = st.cfg.dim then
          ({ st with cold := st.cold.insert id h.vec h.md }, failed, ok + 1, true)
        else
          (st, failed ++ [(id, h)], ok, clr))
    (s, [], 0, false)

/-- drain of a non-empty mirror: reconcile, re-insert failures, `Err` when nothing succeeded -/
def drainNonEmpty (s : TState D) : TState D × Option Nat :=
  match reconcile digest { s with hot := [] } s.hot with
  | (s1, failed, ok, clr) =>
    if failed.length ≠ 0 ∧ ok = 0 then ({ s1 with hot := failed }, none)
    else if clr then ({ s1 with hot := failed, qcClears := s1.qcClears + 1 }, some ok)
    else ({ s1 with hot := failed }, some ok)

/-- `flush_hot_tier(force)` / `emergency_flush_hot_tier` after the `needs_flush` test.
    Result: `none` = the drain failed completely (`Err`), `some n` = `Ok(n)`. -/
def drain (s : TState D) : TState D × Option Nat :=
  if s.hot.length = 0 then (s, some 0) else drainNonEmpty digest s

def flush (s : TState D) (force : Bool) : TState D × Option Nat :=
  if !force && !(s.hot.length ≥ s.cfg.soft) then (s, some 0) else drain digest s

inductive WriteOut | ok | rejected | drainFailed
deriving DecidableEq, Repr

/-- `TieredEngine::insert` after the hard-limit handling: L1a invalidation, normalisation /
    cold insert (refused when `accept = false`), mirror with the canonical token. -/
def insertCore (s : TState D) (id : Nat) (stored : Vec) (m : Meta) (accept : Bool) :
    TState D × WriteOut :=
  if !accept then ({ s with l1a := s.l1a.invalidate id }, .rejected)
  else
    match alookup id (s.cold.insert id stored m) with
    | some d =>
      ({ s with l1a := s.l1a.invalidate id, cold := s.cold.insert id stored m,
                hot := aset id ⟨stored, m, coldToken digest d⟩ s.hot }, .ok)
    | none => ({ s with l1a := s.l1a.invalidate id, cold := s.cold.insert id stored m }, .rejected)

/-- `TieredEngine::insert`.  `stored` = the vector after the engine's normalisation (oracle
    input, bits observed on the implementation); `accept = false` when normalisation or the
    cold tier refuses the input.  At the hard limit an emergency drain runs first; if it fails
    completely the insert is refused. -/
def insert (s : TState D) (id : Nat) (stored : Vec) (m : Meta) (accept : Bool) :
    TState D × WriteOut :=
  if s.hot.length ≥ s.cfg.hard then
    match drain digest s with
    | (s1, some _) => insertCore digest s1 id stored m accept
    | (s1, none) => (s1, .drainFailed)
  else insertCore digest s id stored m accept

/-- `TieredEngine::delete` -/
def delete (s : TState D) (id : Nat) : TState D × Bool :=
  if !(s.cold.delete id).2 && !(alookup id s.hot).isSome then
    ({ s with cold := (s.cold.delete id).1, hot := aerase id s.hot }, false)
  else
    ({ s with cold := (s.cold.delete id).1, hot := aerase id s.hot,
              l1a := s.l1a.invalidate id }, true)

def dedupSorted (ids : List Nat) : List Nat :=
  (ids.mergeSort (· ≤ ·)).eraseDups

def presentCount (s : TState D) (u : List Nat) : Nat :=
  (u.filter fun id => (alookup id s.hot).isSome || (alookup id s.cold).isSome).length

/-- `TieredEngine::batch_delete`: returns the pre-counted number of ids present in either tier. -/
def batchDelete (s : TState D) (ids : List Nat) : TState D × Nat :=
  if presentCount s (dedupSorted ids) = 0 then (s, 0) else
  ({ s with cold := (dedupSorted ids).foldl (fun c id => (Cold.delete c id).1) s.cold,
            hot := (dedupSorted ids).foldl (fun h id => aerase id h) s.hot,
            l1a := (dedupSorted ids).foldl (fun l id => l.invalidate id) s.l1a },
   presentCount s (dedupSorted ids))

def hotUpdateMeta (h : Hot D) (id : Nat) (m : Meta) (merge : Bool) : Hot D :=
  match alookup id h with
  | some d => aset id { d with md := if merge then Meta.merge d.md m else m } h
  | none => h

/-- `TieredEngine::update_metadata` -/
def updateMeta (s : TState D) (id : Nat) (m : Meta) (merge : Bool) : TState D × Bool :=
  if !(s.cold.updateMeta id m merge).2 then (s, false) else
  ({ s with cold := (s.cold.updateMeta id m merge).1, hot := hotUpdateMeta s.hot id m merge,
            qcClears := s.qcClears + 1 }, true)

def bulkLoadCold (c : Cold) (docs : List (Nat × Vec × Meta × Bool)) : Cold × Nat :=
  docs.foldl
    (fun (acc : Cold × Nat) p =>
      if p.2.2.2 then (acc.1.insert p.1 p.2.1 p.2.2.1, acc.2 + 1) else acc) (c, 0)

/-- `bulk_load_cold_tier`: cold only; the hot mirror is NOT refreshed; L1a invalidated for every
    id of the request (accepted or not). -/
def bulkLoad (s : TState D) (docs : List (Nat × Vec × Meta × Bool)) : TState D × Nat :=
  ({ s with cold := (bulkLoadCold s.cold docs).1,
            l1a := docs.foldl (fun l p => l.invalidate p.1) s.l1a,
            qcClears := s.qcClears + 1 }, (bulkLoadCold s.cold docs).2)

def staleHot (s : TState D) : List Nat :=
  (s.hot.filter fun p => canonicalState digest s.cold p.1 p.2.vec p.2.tok ≠ .matched).map (·.1)

/-- background `audit_hot_tier_coherence` -/
def audit (s : TState D) : TState D × Nat :=
  if (staleHot digest s).length = 0 then (s, 0) else
  ({ s with hot := (staleHot digest s).foldl (fun h id => aerase id h) s.hot,
            l1a := (staleHot digest s).foldl (fun l id => l.invalidate id) s.l1a,
            qcClears := s.qcClears + 1 }, (staleHot digest s).length)

/-- ids the filtered delete selects from the hot tier: scan of the *mirror's* metadata, then
    (since fix "re-check hot candidates against canonical metadata") only candidates whose
    canonical metadata also matches, or that have no canonical record at all (orphan scrub). -/
def hotFilterIds (parse : String → Option Nat) (s : TState D) (f : Filter) : List Nat :=
  ((s.hot.filter fun p => matchesF parse f p.2.md).map (·.1)).filter fun id =>
    match alookup id s.cold with
    | some d => matchesF parse f d.md
    | none => true

def coldFilterIds (parse : String → Option Nat) (c : Cold) (f : Filter) : List Nat :=
  (c.filter fun p => matchesF parse f p.2.md).map (·.1)

/-- `TieredEngine::batch_delete_by_metadata_filter` -/
def deleteByFilter (parse : String → Option Nat) (s : TState D) (f : Filter) : TState D × Nat :=
  batchDelete s (hotFilterIds parse s f ++ coldFilterIds parse s.cold f)

/-! ### Adversarial pokes (harness plants entries through the public cache / hot-tier APIs) -/

def pokeCache (s : TState D) (id : Nat) (v : Vec) (t : Token D) : TState D :=
  { s with l1a := s.l1a.insert id ⟨v, t⟩ }

def pokeHot (s : TState D) (id : Nat) (v : Vec) (m : Meta) (t : Token D) : TState D :=
  { s with hot := aset id ⟨v, m, t⟩ s.hot }

end

def TState.init (D : Type) (kind : StratKind) (cap hard soft dim : Nat) : TState D :=
  { cold := [], hot := [], l1a := ⟨kind, ⟨[], cap⟩, ⟨[], cap⟩⟩, cfg := ⟨hard, soft, dim⟩ }

end KyroModel
