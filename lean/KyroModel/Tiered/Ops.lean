/-
Operation alphabet of the tiered-engine model and its step function.  Every oracle input
(stored bits, acceptance verdict, admission bit) is part of the operation, so a theorem
"for all op lists" quantifies over every value the implementation could supply.
-/
import KyroModel.Tiered.Model

namespace KyroModel

inductive TOp (D : Type) where
  | insert (id : Nat) (stored : Vec) (m : Meta) (accept : Bool)
  | delete (id : Nat)
  | batchDelete (ids : List Nat)
  | updateMeta (id : Nat) (m : Meta) (merge : Bool)
  | bulkLoad (docs : List (Nat × Vec × Meta × Bool))
  | flush (force : Bool)
  | audit
  | query (id : Nat) (adm : Bool)
  | docWithMeta (id : Nat)
  | embAware (id : Nat)
  | bulkQuery (ids : List Nat)
  | pokeCache (id : Nat) (v : Vec) (t : Token D)
  | pokeHot (id : Nat) (v : Vec) (m : Meta) (t : Token D)

section
variable {D : Type} [DecidableEq D] (digest : Vec → D)

def applyOp (s : TState D) : TOp D → TState D
  | .insert id v m a => (insert digest s id v m a).1
  | .delete id => (delete s id).1
  | .batchDelete ids => (batchDelete s ids).1
  | .updateMeta id m mg => (updateMeta s id m mg).1
  | .bulkLoad docs => (bulkLoad s docs).1
  | .flush f => (flush digest s f).1
  | .audit => (audit digest s).1
  | .query id a => (query digest s id a).1
  | .docWithMeta id => (docWithMeta digest s id).1
  | .embAware id => (embAware digest s id).1
  | .bulkQuery ids => (bulkQuery digest s ids).1
  | .pokeCache id v t => pokeCache s id v t
  | .pokeHot id v m t => pokeHot s id v m t

def applyOps (s : TState D) (ops : List (TOp D)) : TState D := ops.foldl (applyOp digest) s

/-- Operations a client can issue through the engine API (everything except the harness's
    direct plants into the hot tier). -/
def TOp.isEngineOp : TOp D → Bool
  | .pokeHot .. => false
  | _ => true

end
end KyroModel
