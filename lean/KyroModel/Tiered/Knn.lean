/-
k-NN across the recent-write tier and the ANN tier (tiered_engine.rs
`knn_search_with_ef_detailed_scoped`, `filter_hot_knn_results_to_canonical`, `merge_knn_results`).
What each tier returns for the query — the exhaustive hot scan's top 2k with the coherence verdict
of each candidate, and the ANN's answer — is an input: the theorems hold for EVERY such input, so
in particular for whatever the (heuristic) ANN returns.  Distances are order keys (monotone in the
float value; ±0 coincide) plus the raw bits carried along.
-/
import KyroModel.Tiered.Model

namespace KyroModel.Knn

structure Cand where
  id : Nat
  key : Nat        -- order key of the distance
  bits : Nat       -- the distance itself (opaque)
deriving DecidableEq, Repr

/-- hot candidates whose mirror matches the canonical token -/
def filterCanonical (hot : List (Cand × Bool)) : List Cand :=
  (hot.filter (·.2)).map (·.1)

def hasId (l : List Cand) (id : Nat) : Bool := l.any (·.id == id)

/-- hot first (a later hot duplicate replaces an earlier one), cold only for ids not yet present -/
def dedup (hot cold : List Cand) : List Cand :=
  let h := hot.foldl (fun acc c => c :: acc.filter (·.id != c.id)) []
  cold.foldl (fun acc c => if hasId acc c.id then acc else c :: acc) h

def le (a b : Cand) : Bool := a.key < b.key || (a.key == b.key && a.id ≤ b.id)

def insertSorted (c : Cand) : List Cand → List Cand
  | [] => [c]
  | x :: xs => if le c x then c :: x :: xs else x :: insertSorted c xs

/-- ascending by distance; ties by id (the real order among equal distances is unspecified) -/
def sortCands (l : List Cand) : List Cand := l.foldr insertSorted []

/-- `merge_knn_results` -/
def mergeKnn (hot cold : List Cand) (k : Nat) : List Cand :=
  (sortCands (dedup hot cold)).take k

/-- the whole non-cached search path -/
def search (hot : List (Cand × Bool)) (cold : List Cand) (k : Nat) : List Cand :=
  mergeKnn (filterCanonical hot) cold k

/-! ### on the engine state -/
open KyroModel

/-- `filter_hot_knn_results_to_canonical` on the engine state: the verdict comes from the state,
    a mismatching mirror is discarded as a side effect -/
def filterHot {D : Type} [DecidableEq D] (digest : Vec → D) (s : TState D) :
    List Cand → TState D × List Cand
  | [] => (s, [])
  | c :: rest =>
    match alookup c.id s.hot with
    | none => filterHot digest s rest
    | some h =>
      match canonicalState digest s.cold c.id h.vec h.tok with
      | .matched => ((filterHot digest s rest).1, c :: (filterHot digest s rest).2)
      | .tokenMismatch | .localCorruption => filterHot digest (discardHot s c.id) rest
      | .missing => filterHot digest s rest

/-- the non-cached search path on the engine state -/
def knnStep {D : Type} [DecidableEq D] (digest : Vec → D) (s : TState D) (hot cold : List Cand)
    (k : Nat) : TState D × List Cand :=
  ((filterHot digest s hot).1, mergeKnn (filterHot digest s hot).2 cold k)

end KyroModel.Knn
