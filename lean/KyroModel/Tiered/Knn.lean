/-
k-NN across the recent-write tier and the ANN tier (tiered_engine.rs
`knn_search_with_ef_detailed_scoped`, `filter_hot_knn_results_to_canonical`, `merge_knn_results`).
What each tier returns for the query — the exhaustive hot scan's top 2k with the coherence verdict
of each candidate, and the ANN's answer — is an input: the theorems hold for EVERY such input, so
in particular for whatever the (heuristic) ANN returns.  Distances are order keys (monotone in the
float value; ±0 coincide) plus the raw bits carried along.
-/
import KyroModel.Tiered.Model

namespace KyroModel.Knn

structure Cand where
  id : Nat
  key : Nat        -- order key of the distance
  bits : Nat       -- the distance itself (opaque)
deriving DecidableEq, Repr

/-- hot candidates whose mirror matches the canonical token -/
def filterCanonical (hot : List (Cand × Bool)) : List Cand :=
  (hot.filter (·.2)).map (·.1)

def hasId (l : List Cand) (id : Nat) : Bool := l.any (·.id == id)

/-- hot first (a later hot duplicate replaces an earlier one), cold only for ids not yet present -/
def dedup (hot cold : List Cand) : List Cand :=
  let h := hot.foldl (fun acc c => c :: acc.filter (·.id != c.id)) []
  cold.foldl (fun acc c => if hasId acc c.id then acc else c :: acc) h

def le (a b : Cand) : Bool := a.key < b.key || (a.key == b.key && a.id ≤ b.id)

def insertSorted (c : Cand) : List Cand → List Cand
  | [] => [c]
  | x :: xs => if le c x then c :: x :: xs else x :: insertSorted c xs

/-- ascending by distance; ties by id (the real order among equal distances is unspecified) -/
def sortCands (l : List Cand) : List Cand := l.foldr insertSorted []

/-- `merge_knn_results` -/
def mergeKnn (hot cold : List Cand) (k : Nat) : List Cand :=
  (sortCands (dedup hot cold)).take k

/-- the whole non-cached search path -/
def search (hot : List (Cand × Bool)) (cold : List Cand) (k : Nat) : List Cand :=
  mergeKnn (filterCanonical hot) cold k

/-! ### on the engine state -/
open KyroModel

/-- `filter_hot_knn_results_to_canonical` on the engine state: the verdict comes from the state,
    a mismatching mirror is discarded as a side effect -/
def filterHot {D : Type} [DecidableEq D] (digest : Vec → D) (s : TState D) :
    List Cand → TState D × List Cand
  | [] => (s, [])
  | c :: rest =>
    match alookup c.id s.hot with
    | none => filterHot digest s rest
    | some h =>
      match canonicalState digest s.cold c.id h.vec h.tok with
      | .matched => ((filterHot digest s rest).1, c :: (filterHot digest s rest).2)
      | .tokenMismatch | .localCorruption => filterHot digest (discardHot s c.id) rest
      | .missing => filterHot digest s rest

/-! ### the widening scan (`TieredEngine::hot_knn_canonical`)

The recent-write tier cuts its exhaustive scan to `fetch` candidates BEFORE the canonical check, so a
stale mirror inside the cut displaces a canonical recent write.  The engine therefore widens the cut
by the number of dropped candidates until `limit` canonical ones remain or the tier is exhausted.
`all` is the tier's whole content in scan order (ascending distance) with each entry's verdict. -/

/-- verdict of the canonical check on one candidate: `stale` entries are discarded from the tier,
    `missing` ones (no canonical record / no mirror) are left in place; neither is served -/
inductive V | matched | stale | missing
deriving DecidableEq, Repr

def canon (l : List (Cand × V)) : List Cand := (l.filter (·.2 == .matched)).map (·.1)

/-- what is left of an examined prefix: stale mirrors are gone -/
def keepLive (l : List (Cand × V)) : List (Cand × V) := l.filter (·.2 != .stale)

/-- returns (the tier's content afterwards, the canonical candidates) -/
def widenF : Nat → List (Cand × V) → Nat → Nat → List (Cand × V) × List Cand
  | 0, all, _, _ => (all, [])
  | fuel + 1, all, fetch, limit =>
    if (all.take fetch).length < fetch || limit ≤ (canon (all.take fetch)).length then
      (keepLive (all.take fetch) ++ all.drop fetch, (canon (all.take fetch)).take limit)
    else
      widenF fuel (keepLive (all.take fetch) ++ all.drop fetch)
        (fetch + ((all.take fetch).length - (canon (all.take fetch)).length)) limit

/-- the pre-fix code: one pass, cut first, filter afterwards -/
def cutThenFilter (all : List (Cand × V)) (limit : Nat) : List Cand := canon (all.take limit)

/-- the verdict of `canonical_vector_state` for a scan candidate, from the engine state -/
def verdict {D : Type} [DecidableEq D] (digest : Vec → D) (s : TState D) (c : Cand) : V :=
  match alookup c.id s.hot with
  | none => .missing
  | some h =>
    match canonicalState digest s.cold c.id h.vec h.tok with
    | .matched => .matched
    | .tokenMismatch | .localCorruption => .stale
    | .missing => .missing

def annotate {D : Type} [DecidableEq D] (digest : Vec → D) (s : TState D) (scan : List Cand) :
    List (Cand × V) := scan.map fun c => (c, verdict digest s c)

/-- ids of the scan that the widening examined and discarded -/
def discarded (before after : List (Cand × V)) : List Nat :=
  (before.filter fun e => !(after.any fun a => a.1.id == e.1.id)).map (·.1.id)

/-- the non-cached search path on the engine state; `scan` = the recent-write tier's whole content
    in scan order for this query -/
def knnStep {D : Type} [DecidableEq D] (digest : Vec → D) (s : TState D) (scan cold : List Cand)
    (k : Nat) : TState D × List Cand :=
  let sv := annotate digest s scan
  let w := widenF (sv.length + 1) sv (2 * k) (2 * k)
  ((discarded sv w.1).foldl discardHot s, mergeKnn w.2 cold k)

end KyroModel.Knn
