/-
Executable model of `QueryHashCache` (engine/src/query_hash_cache.rs): the L1b query-result
cache.  Core Lean only.

* a cache key is `(scope, qh)`; `qh` is the list of 16-bit quantised coordinates that the
  implementation feeds to its 64-bit hasher (the hash is treated as injective on them);
* entries are kept in LRU order, oldest first (`LruIndex`);
* a result is `(doc id, distance)`; a distance is the order-preserving image of the f32 bits
  (see `Driver`), compared as a `Nat`;
* float decisions (which cached queries are similar enough to the probe; which entries an
  inserted vector can affect) arrive as oracle inputs.
-/
import KyroModel.Base.Assoc

namespace KyroModel

abbrev QKey := Nat × List Nat

structure QEntry where
  key : QKey
  q : List Nat                 -- the stored query embedding (bits); replaced together with `res`
  reqK : Nat
  res : List (Nat × Nat)
deriving DecidableEq, Repr

structure QCache where
  entries : List QEntry        -- LRU order, head = least recently used
  cap : Nat
  gen : Nat                    -- invalidation generation
deriving Repr

namespace QCache

def init (cap : Nat) : QCache := ⟨[], cap, 0⟩

def find? (c : QCache) (k : QKey) : Option QEntry := c.entries.find? (·.key == k)

def without (es : List QEntry) (k : QKey) : List QEntry := es.filter (fun e => !(e.key == k))

/-- move to the MRU end -/
def touch (c : QCache) (k : QKey) : QCache :=
  match c.find? k with
  | some e => { c with entries := without c.entries k ++ [e] }
  | none => c

/-- `insert_with_k_scoped_if_generation`.  Returns whether the store was accepted. -/
def store (c : QCache) (k : QKey) (q : List Nat) (reqK0 : Nat) (res : List (Nat × Nat))
    (expGen : Option Nat) : QCache × Bool :=
  let reqK := max reqK0 res.length
  if expGen.isSome && expGen != some c.gen then (c, false) else
  match c.find? k with
  | some old =>
    if reqK ≥ old.reqK then
      ({ c with entries := without c.entries k ++ [⟨k, q, reqK, res⟩] }, true)
    else
      ({ c with entries := without c.entries k ++ [old] }, true)
  | none =>
    let kept := if c.entries.length ≥ c.cap then c.entries.tail else c.entries
    ({ c with entries := kept ++ [⟨k, q, reqK, res⟩] }, true)

/-- `get_scoped`.  `order` lists, best first, the stored query embeddings (bits) of this scope
    that are more similar to the probe than the configured threshold (oracle input; ties
    excluded by the generator). -/
def get (c : QCache) (k : QKey) (want : Nat) (order : List (List Nat)) :
    QCache × Option (List (Nat × Nat)) :=
  match c.find? k with
  | some e =>
    if e.reqK ≥ want then (c.touch k, some (e.res.take want))
    else (c, none)                                   -- insufficient k: plain miss, no scan
  | none =>
    let eligible := order.filterMap fun qv =>
      c.entries.find? fun e =>
        e.key.1 == k.1 && !(e.key == k) && e.q == qv && decide (e.reqK ≥ want)
    match eligible with
    | e :: _ => (c.touch e.key, some (e.res.take want))
    | [] => (c, none)

/-- `invalidate_doc`: bump the generation, drop every entry whose results mention the doc. -/
def invalidateDoc (c : QCache) (d : Nat) : QCache × Nat :=
  let keep := c.entries.filter fun e => !(e.res.any (·.1 == d))
  ({ c with entries := keep, gen := c.gen + 1 }, c.entries.length - keep.length)

/-- `invalidate_for_insert`: bump the generation; drop entries that are short
    (`|res| < reqK`) and the entries the distance test selects (`hit`, oracle input). -/
def invalidateForInsert (c : QCache) (hit : List QKey) : QCache × Nat :=
  let keep := c.entries.filter fun e => !(decide (e.res.length < e.reqK) || hit.contains e.key)
  ({ c with entries := keep, gen := c.gen + 1 }, c.entries.length - keep.length)

def clear (c : QCache) : QCache := { c with entries := [], gen := c.gen + 1 }

/-! #### IEEE-754 single precision, as bit patterns -/

def f32IsNaN (b : Nat) : Bool := (b / 2 ^ 23) % 256 == 255 && b % 2 ^ 23 != 0
def f32IsFinite (b : Nat) : Bool := (b / 2 ^ 23) % 256 != 255

/-- order-preserving image of a non-NaN f32 (−0 and +0 share a key) -/
def f32Key (b : Nat) : Nat :=
  if b % 2 ^ 32 == 2 ^ 31 then 2 ^ 31            -- −0 ↦ key of +0
  else if b % 2 ^ 32 < 2 ^ 31 then b % 2 ^ 32 + 2 ^ 31
  else 2 ^ 32 - 1 - b % 2 ^ 32

/-- `results.map(distance).fold(NEG_INFINITY, f32::max)` as a key; `none` when that value is
    not finite (no results, an infinite distance; NaNs are ignored by `f32::max`). -/
def worstKey (res : List (Nat × Nat)) : Option Nat :=
  let ds := (res.map (·.2)).filter (fun b => !f32IsNaN b)
  match ds with
  | [] => none
  | d :: rest =>
    let w := rest.foldl (fun acc b => if f32Key b > f32Key acc then b else acc) d
    if f32IsFinite w then some (f32Key w) else none

/-- The exact decision `invalidate_for_insert` must implement for one entry, given the distance
    `d` (f32 bits) between the entry's query and the inserted vector (`none` = dimension
    mismatch): drop when short, when dimensions differ, when the boundary or `d` is not finite,
    or when `d ≤ worst`.  The prefilter of the implementation may only skip entries for which
    this decision is "keep". -/
def mustDrop (e : QEntry) (d : Option Nat) : Bool :=
  if e.res.length < e.reqK then true else
  match d with
  | none => true
  | some db =>
    match worstKey e.res with
    | none => true
    | some w => !f32IsFinite db || f32IsNaN db || f32Key db ≤ w

/-- `dists`: for each (scope, stored query bits) the distance to the inserted vector -/
def hitKeys (c : QCache) (dists : List ((Nat × List Nat) × Option Nat)) : List QKey :=
  (c.entries.filter fun e =>
    match dists.find? (·.1 == (e.key.1, e.q)) with
    | some (_, d) => mustDrop e d
    | none => true).map (·.key)

end QCache

inductive QOp where
  | store (k : QKey) (q : List Nat) (reqK : Nat) (res : List (Nat × Nat)) (expGen : Option Nat)
  | get (k : QKey) (want : Nat) (order : List (List Nat))
  | invalidateDoc (d : Nat)
  | invalidateForInsert (hit : List QKey)
  | clear

def QCache.applyOp (c : QCache) : QOp → QCache
  | .store k q r res g => (c.store k q r res g).1
  | .get k w o => (c.get k w o).1
  | .invalidateDoc d => (c.invalidateDoc d).1
  | .invalidateForInsert h => (c.invalidateForInsert h).1
  | .clear => c.clear

def QCache.applyOps (c : QCache) (ops : List QOp) : QCache := ops.foldl QCache.applyOp c

end KyroModel
