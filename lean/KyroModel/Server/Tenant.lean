/-
The tenant layer of `kyrodb_server` (engine/src/bin/kyrodb_server.rs): API key -> tenant context,
global id = tenant_index << 32 | local id, server-owned metadata keys, tenant / namespace checks on
every read / update / delete, the per-tenant vector count used for quota admission, the usage
tracker, and the start-up recount.  The engine underneath is the abstract document map that
C01-C11 establish (`docs : global id -> (vector, metadata)`); an engine write can be refused
(`accept = false`: wrong dimension / non-finite input), which is the "failed write" of C14.

Strings are the hex text of the line protocol (equality and order coincide with the bytes').
Core Lean only.
-/
import KyroModel.Server.Validate
import KyroModel.Tiered.Model

namespace KyroModel.Srv
open KyroModel

def kTenantId : String := "5f5f74656e616e745f69645f5f"        -- "__tenant_id__"
def kTenantIdx : String := "5f5f74656e616e745f6964785f5f"     -- "__tenant_idx__"
def kNamespace : String := "5f5f6e616d6573706163655f5f"       -- "__namespace__"

def reserved (k : String) : Bool := k == kTenantId || k == kTenantIdx || k == kNamespace

structure Tn where
  name : String        -- hex of the tenant id
  idx : Nat
  idxStr : String      -- hex of the decimal text of `idx`
  maxv : Nat
deriving DecidableEq, Repr

structure Doc where
  vec : List Nat
  md : Meta            -- as stored: reserved keys included
deriving DecidableEq, Repr

structure Usage where
  vectors : Nat := 0
  inserts : Nat := 0
  deletes : Nat := 0
deriving DecidableEq, Repr

structure S where
  dim : Nat
  docs : List (Nat × Doc) := []
  counts : List (Nat × Nat) := []      -- tenant index -> vectors counted against the quota
  usage : List (Nat × Usage) := []
deriving Repr

inductive Err | unauthenticated | invalidArgument | resourceExhausted | internal
deriving DecidableEq, Repr

/-! ### ids -/

def limit32 : Nat := 4294967296

/-- `TenantIdMapper::to_global_doc_id` -/
def gid (t : Tn) (lid : Nat) : Option Nat := if lid < limit32 then some (t.idx * limit32 + lid) else none

def ownsGid (t : Tn) (g : Nat) : Bool := g / limit32 == t.idx
def localOf (g : Nat) : Nat := g % limit32

/-! ### metadata -/

/-- `sanitize_public_metadata` / the `remove` calls on the write paths -/
def strip (m : Meta) : Meta := m.filter (fun p => !reserved p.1)

def mget (m : Meta) (k : String) : Option String := (m.find? (·.1 == k)).map (·.2)

/-- what a write stores: client keys minus the reserved ones, plus the server-owned ones -/
def stamp (t : Tn) (m : Meta) (ns : String) : Meta :=
  let m1 := Meta.set kTenantIdx t.idxStr (Meta.set kTenantId t.name (strip m))
  if ns == "" then m1 else Meta.set kNamespace ns m1

def nsOf (m : Meta) : String := (mget m kNamespace).getD ""

/-- the tenant + namespace check of delete / update_metadata / query -/
def visible (t : Tn) (ns : String) (m : Meta) : Bool :=
  mget m kTenantIdx == some t.idxStr && (ns == "" || nsOf m == ns)

/-! ### client filters and the server-owned keys -/

mutual
/-- does a client filter name a server-owned key anywhere? -/
def mentionsReserved : Filter → Bool
  | .none => false
  | .exact k _ => reserved k
  | .range k _ => reserved k
  | .inMatch k _ => reserved k
  | .and fs => anyMentions fs
  | .or fs => anyMentions fs
  | .not none => false
  | .not (some f) => mentionsReserved f
def anyMentions : List Filter → Bool
  | [] => false
  | f :: fs => mentionsReserved f || anyMentions fs
end

mutual
/-- the same filter as a client that cannot see the server-owned keys would have it evaluated:
    every leaf on a reserved key behaves as "key absent" (never matches) -/
def hideReserved : Filter → Filter
  | .none => .none
  | .exact k v => if reserved k then .or [] else .exact k v
  | .range k b => if reserved k then .or [] else .range k b
  | .inMatch k vs => if reserved k then .or [] else .inMatch k vs
  | .and fs => .and (hideAll fs)
  | .or fs => .or (hideAll fs)
  | .not none => .not none
  | .not (some f) => .not (some (hideReserved f))
def hideAll : List Filter → List Filter
  | [] => []
  | f :: fs => hideReserved f :: hideAll fs
end

/-! ### counters -/

def count (s : S) (t : Tn) : Nat := (alookup t.idx s.counts).getD 0
def setCount (s : S) (t : Tn) (n : Nat) : S := { s with counts := aset t.idx n s.counts }
def usageOf (s : S) (t : Tn) : Usage := (alookup t.idx s.usage).getD {}
def setUsage (s : S) (t : Tn) (u : Usage) : S := { s with usage := aset t.idx u s.usage }

def noteInserts (s : S) (t : Tn) (n : Nat) : S :=
  if n = 0 then s else
  setUsage s t { usageOf s t with vectors := (usageOf s t).vectors + n, inserts := (usageOf s t).inserts + n }

def noteDeletes (s : S) (t : Tn) (n : Nat) : S :=
  if n = 0 then s else
  setUsage s t { usageOf s t with vectors := (usageOf s t).vectors - n, deletes := (usageOf s t).deletes + n }

def decCount (s : S) (t : Tn) (n : Nat) : S := if n = 0 then s else setCount s t (count s t - n)

/-- live documents of a tenant (by the stored tenant index) -/
def live (s : S) (t : Tn) : Nat := (s.docs.filter fun p => mget p.2.md kTenantIdx == some t.idxStr).length

/-! ### writes -/

/-- one admitted write against the engine: `accept = false` models an engine-side refusal -/
def engineInsert (s : S) (g : Nat) (v : List Nat) (m : Meta) : S × Bool :=
  if v.length = s.dim then ({ s with docs := aset g ⟨v, m⟩ s.docs }, true) else (s, false)

/-- `enforce_vector_quota` + write + compensation; shared by Insert and each BulkInsert item -/
def insertCore (s : S) (t : Tn) (g : Nat) (v : List Nat) (m : Meta) (ns : String) : S × Except Err Unit :=
  if (alookup g s.docs).isSome then
    match engineInsert s g v (stamp t m ns) with
    | (s', true) => (s', .ok ())
    | (s', false) => (s', .error .internal)
  else if t.maxv ≤ count s t then (s, .error .resourceExhausted)
  else
    match engineInsert (setCount s t (count s t + 1)) g v (stamp t m ns) with
    | (s', true) => (noteInserts s' t 1, .ok ())
    | (s', false) => (decCount s' t 1, .error .internal)

/-- `Insert` -/
def insert (s : S) (t : Tn) (lid : Nat) (v : List Nat) (m : Meta) (ns : String) : S × Except Err Unit :=
  if lid < 1 || v.isEmpty then (s, .error .invalidArgument) else
  match gid t lid with
  | none => (s, .error .invalidArgument)
  | some g => insertCore s t g v m ns

structure Item where
  lid : Nat
  vec : List Nat
  md : Meta
  ns : String
deriving Repr

/-- `BulkInsert`: per item, failures counted; returns (inserted, failed) -/
def bulkInsert (s : S) (t : Tn) : List Item → S × Nat × Nat
  | [] => (s, 0, 0)
  | it :: rest =>
    let r := insert s t it.lid it.vec it.md it.ns
    let (s', a, b) := bulkInsert r.1 t rest
    match r.2 with
    | .ok _ => (s', a + 1, b)
    | .error _ => (s', a, b + 1)

def dedupNat : List Nat → List Nat
  | [] => []
  | x :: xs => if xs.contains x then dedupNat xs else x :: dedupNat xs

/-- `bulk_load_cold_tier` on the batch: every item whose engine write is accepted is stored -/
def loadAll (s : S) : List (Nat × List Nat × Meta) → S × Nat × Nat
  | [] => (s, 0, 0)
  | (g, v, m) :: rest =>
    match engineInsert s g v m with
    | (s', true) => let (s'', a, b) := loadAll s' rest; (s'', a + 1, b)
    | (s', false) => let (s'', a, b) := loadAll s' rest; (s'', a, b + 1)

/-- `BulkLoadHnsw` (one batch): validation drops items, the new ids are reserved in one step,
    the unused part of the reservation is released.  Returns (loaded, failed). -/
def bulkLoad (s : S) (t : Tn) (items : List Item) : S × Except Err (Nat × Nat) :=
  let valid := items.filter fun it => !(it.lid < 1 || it.vec.isEmpty) && (gid t it.lid).isSome
  let invalid := items.length - valid.length
  let batch := valid.map fun it => ((gid t it.lid).getD 0, it.vec, stamp t it.md it.ns)
  if batch.isEmpty then (s, .ok (0, invalid)) else
  let newIds := dedupNat ((batch.map (·.1)).filter fun g => !(alookup g s.docs).isSome)
  if t.maxv < count s t + newIds.length then (s, .error .resourceExhausted) else
  let s1 := if newIds.isEmpty then s else setCount s t (count s t + newIds.length)
  let r := loadAll s1 batch
  let now := (newIds.filter fun g => (alookup g r.1.docs).isSome).length
  (noteInserts (decCount r.1 t (newIds.length - now)) t now, .ok (r.2.1, r.2.2 + invalid))

/-- `Delete` -/
def delete (s : S) (t : Tn) (lid : Nat) (ns : String) : S × Except Err Bool :=
  if lid < 1 then (s, .error .invalidArgument) else
  match gid t lid with
  | none => (s, .error .invalidArgument)
  | some g =>
    match alookup g s.docs with
    | none => (s, .ok false)
    | some d =>
      if !visible t ns d.md then (s, .ok false) else
      (noteDeletes (decCount { s with docs := aerase g s.docs } t 1) t 1, .ok true)

/-- `engine.batch_delete` over the ids the tenant check let through -/
def deleteMany (s : S) : List Nat → S × Nat
  | [] => (s, 0)
  | g :: rest =>
    if (alookup g s.docs).isSome then
      let (s', n) := deleteMany { s with docs := aerase g s.docs } rest
      (s', n + 1)
    else deleteMany s rest

/-- the tenant / namespace check of `BatchDelete` by ids on one global id -/
def visibleAt (s : S) (t : Tn) (ns : String) (g : Nat) : Bool :=
  match alookup g s.docs with
  | some d => visible t ns d.md
  | none => false

/-- `BatchDelete` by ids -/
def batchDeleteIds (s : S) (t : Tn) (lids : List Nat) (ns : String) : S × Except Err Nat :=
  if lids.any fun l => (gid t l).isNone then (s, .error .invalidArgument) else
  let gs := (lids.filterMap (gid t)).filter (visibleAt s t ns)
  let (s', n) := deleteMany s gs
  (noteDeletes (decCount s' t n) t n, .ok n)

section
variable (parse : String → Option Nat)

/-- `BatchDelete` by filter: a client filter naming a server-owned key is refused; otherwise
    AND [tenant index, namespace?, client filter] over the stored metadata -/
def batchDeleteFilter (s : S) (t : Tn) (f : Filter) (ns : String) : S × Except Err Nat :=
  if mentionsReserved f then (s, .error .invalidArgument) else
  let gs := (s.docs.filter fun p => visible t ns p.2.md && matchesF parse f p.2.md).map (·.1)
  let (s', n) := deleteMany s gs
  (noteDeletes (decCount s' t n) t n, .ok n)
end

/-- carry a server-owned key over from the stored document -/
def carry (old : Meta) (k : String) (m : Meta) : Meta :=
  match mget old k with
  | some x => Meta.set k x m
  | none => m

/-- `UpdateMetadata`: reserved keys are carried over from the stored document -/
def updateMeta (s : S) (t : Tn) (lid : Nat) (m : Meta) (merge : Bool) (ns : String) : S × Except Err Bool :=
  if lid = 0 then (s, .error .invalidArgument) else
  match gid t lid with
  | none => (s, .error .invalidArgument)
  | some g =>
    match alookup g s.docs with
    | none => (s, .ok false)
    | some d =>
      if !visible t ns d.md then (s, .ok false) else
      ({ s with docs := aset g ⟨d.vec, if merge
          then Meta.merge d.md (carry d.md kNamespace (carry d.md kTenantIdx (carry d.md kTenantId (strip m))))
          else carry d.md kNamespace (carry d.md kTenantIdx (carry d.md kTenantId (strip m)))⟩ s.docs }, .ok true)

/-! ### reads -/

/-- what a point read shows: (found, vector, public metadata) -/
def readDoc (s : S) (t : Tn) (lid : Nat) (ns : String) : Option (List Nat × Meta) :=
  match gid t lid with
  | none => none
  | some g =>
    match alookup g s.docs with
    | none => none
    | some d => if visible t ns d.md then some (d.vec, strip d.md) else none

/-- `Query` -/
def query (s : S) (t : Tn) (lid : Nat) (ns : String) : Except Err (Option (List Nat × Meta)) :=
  if lid = 0 then .error .invalidArgument else
  if (gid t lid).isNone then .error .invalidArgument else .ok (readDoc s t lid ns)

/-- `BulkQuery` -/
def bulkQuery (s : S) (t : Tn) (lids : List Nat) (ns : String) : Except Err (List (Nat × Option (List Nat × Meta))) :=
  if lids.any fun l => (gid t l).isNone then .error .invalidArgument else
  .ok (lids.map fun l => (l, readDoc s t l ns))

section
variable (parse : String → Option Nat)

def filterOk (f : Option Filter) (md : Meta) : Bool :=
  match f with
  | some f => matchesF parse f md
  | none => true

/-- the post-filter of `build_search_response` on one candidate (global id) -/
def passes (s : S) (t : Tn) (ns : String) (f : Option Filter) (g : Nat) : Option (Nat × Meta) :=
  if !ownsGid t g then none else
  match alookup g s.docs with
  | none => none
  | some d =>
    if !visible t ns d.md then none else
    if !filterOk parse f d.md then none else
    if localOf g < 1 then none else some (localOf g, strip d.md)

/-- `Search`: `rank` = the global nearest-neighbour order over ALL documents of ALL tenants (what the
    engine returns for a large enough k); the engine is asked for `searchK` of them, the tenant /
    namespace / filter checks run afterwards.  Returns (total_found, first k). -/
def search (s : S) (t : Tn) (rank : List Nat) (k : Nat) (ns : String) (f : Option Filter) :
    Except Err (Nat × List (Nat × Meta)) :=
  match validateSearch s.dim true k 0 (ns != "") f with
  | .error _ => .error .invalidArgument
  | .ok plan =>
    if (f.map mentionsReserved).getD false then .error .invalidArgument else
    let cands := (rank.take plan.searchK).filterMap (passes parse s t ns f)
    .ok (cands.length, cands.take k)

/-- the isolated specification: the same request against a server holding only this tenant's
    documents (`rank` restricted to them) -/
def searchAlone (s : S) (t : Tn) (rank : List Nat) (k : Nat) (ns : String) (f : Option Filter) :
    Except Err (Nat × List (Nat × Meta)) :=
  search parse s t (rank.filter (ownsGid t)) k ns f
end

/-! ### quota probe, restart -/

/-- head-room: how many fresh documents the tenant is admitted before RESOURCE_EXHAUSTED -/
def room (s : S) (t : Tn) : Nat := t.maxv - count s t

/-- the probe inserts `room` fresh documents and deletes them again: only the usage counters move -/
def probe (s : S) (t : Tn) : S :=
  let n := room s t
  if n = 0 then s else
  setUsage s t { usageOf s t with inserts := (usageOf s t).inserts + n, deletes := (usageOf s t).deletes + n }

/-- start-up recount (`main`): the count of every configured tenant is recomputed from the stored
    tenant index; the usage tracker is restored from its snapshot -/
def restart (s : S) (ts : List Tn) : S :=
  { s with counts := ts.map fun t => (t.idx, live s t) }

/-! ### histories -/

inductive Op
  | insert (t : Tn) (lid : Nat) (v : List Nat) (m : Meta) (ns : String)
  | delete (t : Tn) (lid : Nat) (ns : String)
  | update (t : Tn) (lid : Nat) (m : Meta) (merge : Bool) (ns : String)
  | bdIds (t : Tn) (lids : List Nat) (ns : String)
  | bdFilter (t : Tn) (f : Filter) (ns : String)
  | bulkInsert (t : Tn) (items : List Item)
  | bulkLoad (t : Tn) (items : List Item)
  | probe (t : Tn)
  | restart

def Op.tenant : Op → Option Tn
  | .insert t .. | .delete t .. | .update t .. | .bdIds t .. | .bdFilter t .. | .bulkInsert t .. | .bulkLoad t .. | .probe t => some t
  | .restart => none

def step (parse : String → Option Nat) (ts : List Tn) (s : S) : Op → S
  | .insert t lid v m ns => (insert s t lid v m ns).1
  | .delete t lid ns => (delete s t lid ns).1
  | .update t lid m mg ns => (updateMeta s t lid m mg ns).1
  | .bdIds t lids ns => (batchDeleteIds s t lids ns).1
  | .bdFilter t f ns => (batchDeleteFilter parse s t f ns).1
  | .bulkInsert t items => (bulkInsert s t items).1
  | .bulkLoad t items => (bulkLoad s t items).1
  | .probe t => probe s t
  | .restart => restart s ts

end KyroModel.Srv
