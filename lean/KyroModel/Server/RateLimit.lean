/-
Token-bucket rate limiter (engine/src/rate_limiter.rs) in exact arithmetic.  Core Lean only.

Tokens are counted in units of `1/G` token (`G = 10⁹` in the driver: nano-tokens), time in
nanoseconds, so `tokens += elapsed_ns · rate` is exact.  The implementation computes the same
quantities in `f64`; the correspondence ends a case when a decision sits within rounding
distance of the threshold.  The clock is an input: every `Instant::now()` of the code is one
timestamp of the operation.
-/
namespace KyroModel

structure Bucket where
  cap : Nat          -- burst capacity (tokens) = max_qps
  rate : Nat         -- tokens per second = max_qps
  tokens : Nat       -- in units of 1/G token
  last : Nat         -- last_refill (ns)
deriving Repr, DecidableEq

namespace Bucket

/-- `TokenBucket::new`: full -/
def new (G qps now : Nat) : Bucket := ⟨qps, qps, qps * G, now⟩

/-- `refill` -/
def refill (G : Nat) (b : Bucket) (now : Nat) : Bucket :=
  if now > b.last then
    { b with tokens := min (b.cap * G) (b.tokens + (now - b.last) * b.rate), last := now }
  else b

/-- `try_consume` -/
def tryConsume (G : Nat) (b : Bucket) (now : Nat) : Bucket × Bool :=
  if (b.refill G now).tokens ≥ G then
    ({ b.refill G now with tokens := (b.refill G now).tokens - G }, true)
  else (b.refill G now, false)

/-- `refund_one` -/
def refundOne (G : Nat) (b : Bucket) : Bucket :=
  { b with tokens := min (b.cap * G) (b.tokens + G) }

end Bucket

/-- `RateLimiter`: per-tenant buckets (lazily created) and an optional global bucket -/
structure RateLimiter where
  tenants : List (Nat × Bucket)
  global : Option Bucket
deriving Repr

namespace RateLimiter

def lookup (r : RateLimiter) (t : Nat) : Option Bucket := (r.tenants.find? (·.1 == t)).map (·.2)

def setTenant (r : RateLimiter) (t : Nat) (b : Bucket) : RateLimiter :=
  { r with tenants := (t, b) :: r.tenants.filter (fun p => !(p.1 == t)) }

/-- `check_limit` executed without interleaving.  `cNew`, `cTenant`, `cGlobal` are the readings
    of `Instant::now()` at bucket creation (new tenant only), in the tenant `try_consume` and in
    the global `try_consume`.  Returns the limiter, the verdict and how many readings were used. -/
def checkLimit (G : Nat) (r : RateLimiter) (t qps : Nat) (cNew cTenant cGlobal : Nat) :
    RateLimiter × Bool × Nat :=
  let b0 : Bucket := match r.lookup t with
    | some b => b
    | none => Bucket.new G qps cNew
  let used0 : Nat := if (r.lookup t).isSome then 0 else 1
  if !(b0.tryConsume G cTenant).2 then (r.setTenant t (b0.tryConsume G cTenant).1, false, used0 + 1) else
  match r.global with
  | none => (r.setTenant t (b0.tryConsume G cTenant).1, true, used0 + 1)
  | some g =>
    if (g.tryConsume G cGlobal).2 then
      ({ (r.setTenant t (b0.tryConsume G cTenant).1) with global := some (g.tryConsume G cGlobal).1 },
        true, used0 + 2)
    else
      ({ (r.setTenant t ((b0.tryConsume G cTenant).1.refundOne G)) with
          global := some (g.tryConsume G cGlobal).1 }, false, used0 + 2)

end RateLimiter
end KyroModel
