/-
Request validation and search planning: engine/src/api_validation.rs and
engine/src/adaptive_oversampling.rs.  Core Lean only.
-/
import KyroModel.Store.Filter

namespace KyroModel

def clampNat (x lo hi : Nat) : Nat := max lo (min hi x)

mutual
/-- `calculate_oversampling_factor` (`Filter.none` = a filter message without `filter_type`) -/
def oversample : Filter → Nat
  | .none => 1
  | .exact _ _ => 2
  | .range _ _ => 5
  | .inMatch _ vs => if vs.length ≤ 2 then 3 else if vs.length ≤ 5 then 5 else 8
  | .and fs => if fs.isEmpty then 1 else (minTyped fs).getD 2
  | .or fs => if fs.isEmpty then 1 else clampNat (sumTyped fs / max fs.length 1 * 2) 2 20
  | .not none => 20
  | .not (some .none) => 20
  | .not (some f) => clampNat (50 / oversample f) 10 50
/-- minimum over the children that carry a `filter_type` -/
def minTyped : List Filter → Option Nat
  | [] => none
  | .none :: fs => minTyped fs
  | f :: fs => match minTyped fs with
    | some m => some (min (oversample f) m)
    | none => some (oversample f)
/-- sum over the children that carry a `filter_type` -/
def sumTyped : List Filter → Nat
  | [] => 0
  | .none :: fs => sumTyped fs
  | f :: fs => oversample f + sumTyped fs
end

inductive VErr
  | emptyEmbedding | tooManyDims | nonFinite | kZero | kTooLarge | efTooLarge | badDocId
deriving DecidableEq, Repr

structure Plan where
  searchK : Nat
  ef : Option Nat
deriving DecidableEq, Repr

def filterBase : Option Filter → Nat
  | some f => oversample f
  | none => 1

/-- oversampling factor of a search: filter estimate, ×4 capped at 10 when a namespace is set -/
def searchFactor (hasNamespace : Bool) (filter : Option Filter) : Nat :=
  if hasNamespace then min (filterBase filter * 4) 10 else filterBase filter

/-- `validate_search_request` on the fields it reads -/
def validateSearch (len : Nat) (finite : Bool) (k ef : Nat) (hasNamespace : Bool)
    (filter : Option Filter) : Except VErr Plan :=
  if len = 0 then .error .emptyEmbedding else
  if len > 4096 then .error .tooManyDims else
  if !finite then .error .nonFinite else
  if k = 0 then .error .kZero else
  if k > 1000 then .error .kTooLarge else
  if ef > 10000 then .error .efTooLarge else
  .ok ⟨min (k * searchFactor hasNamespace filter) 10000, if ef = 0 then none else some ef⟩

/-- `validate_insert_request` -/
def validateInsert (docId len : Nat) (finite : Bool) : Except VErr Unit :=
  if docId < 1 then .error .badDocId else
  if len = 0 then .error .emptyEmbedding else
  if len > 4096 then .error .tooManyDims else
  if !finite then .error .nonFinite else .ok ()

end KyroModel
