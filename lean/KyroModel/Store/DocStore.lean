/-
Slot-level model of `HnswBackend`'s in-memory state: `DocumentStore` (contiguous internal
slots, tombstones, versions, external↔internal maps) and the derived
`MetadataInvertedIndex`.  Core Lean only.
-/
import KyroModel.Base.Assoc
import KyroModel.Store.Filter

namespace KyroModel

structure Slot where
  vec : List Nat
  md : MetaMap
  ver : Nat
  ext : Option Nat            -- `internal_to_external[i]`; `none` = tombstone
deriving Repr

structure DocStore where
  slots : List Slot
  e2i : List (Nat × Nat)      -- `external_to_internal`
  idx : MetaIndex
  cap : Nat                   -- HNSW `max_elements` (counts tombstoned slots too)
deriving Repr

namespace DocStore

def empty (cap : Nat) : DocStore := ⟨[], [], MetaIndex.empty, cap⟩

def tombstone (slots : List Slot) (o : Nat) : List Slot :=
  slots.modify o fun s => { s with ext := none, md := [] }

def mdAt (slots : List Slot) (i : Nat) : MetaMap := (slots[i]?.map (·.md)).getD []

def liveAt (slots : List Slot) (i : Nat) : Bool := (slots[i]?.bind (·.ext)).isSome

section
variable (parse : String → Option Nat)

/-- `MetadataInvertedIndex::rebuild_from` -/
def rebuildIdx (slots : List Slot) : MetaIndex :=
  (List.range slots.length).foldl
    (fun x i => if liveAt slots i then x.insertDoc parse i (mdAt slots i) else x) MetaIndex.empty

/-- `compact_tombstones`: drop tombstoned slots, renumber, rebuild maps and index -/
def compact (s : DocStore) : DocStore :=
  let live := s.slots.filter (·.ext.isSome)
  let e2i := (List.range live.length).filterMap fun i =>
    (live[i]?.bind (·.ext)).map fun id => (id, i)
  { s with slots := live, e2i := e2i, idx := rebuildIdx parse live }

def tombstones (s : DocStore) : Nat := (s.slots.filter (·.ext.isNone)).length

/-- version of the next write of `id`: prior live version + 1, or 1 (fresh epoch) -/
def nextVer (s : DocStore) (id : Nat) : Nat :=
  match (alookup id s.e2i).bind (s.slots[·]?) with
  | some sl => sl.ver + 1
  | none => 1

/-- append the new slot, tombstone the previous one, keep maps and index in step -/
def insertWith (s : DocStore) (id : Nat) (v : List Nat) (m : MetaMap) (ver : Nat) : DocStore :=
  match alookup id s.e2i with
  | none =>
    { s with slots := s.slots ++ [⟨v, m, ver, some id⟩], e2i := aset id s.slots.length s.e2i,
             idx := s.idx.insertDoc parse s.slots.length m }
  | some o =>
    { s with slots := tombstone (s.slots ++ [⟨v, m, ver, some id⟩]) o,
             e2i := aset id s.slots.length s.e2i,
             idx := (s.idx.insertDoc parse s.slots.length m).removeDoc parse o (mdAt s.slots o) }

/-- the in-memory effect of an accepted insert / overwrite (`HnswBackend::insert` after the
    pre-flight) -/
def insertCore (s : DocStore) (id : Nat) (v : List Nat) (m : MetaMap) : DocStore :=
  s.insertWith parse id v m (s.nextVer id)

inductive InsertOut | ok | full
deriving DecidableEq, Repr

/-- `HnswBackend::insert` for an input the pre-flight accepts: index-full handling with one
    tombstone compaction, then the in-memory update. -/
def insert (s : DocStore) (id : Nat) (v : List Nat) (m : MetaMap) : DocStore × InsertOut :=
  if s.slots.length ≥ s.cap then
    if s.tombstones > 0 then
      let s1 := s.compact parse
      if s1.slots.length ≥ s1.cap then (s1, .full) else (s1.insertCore parse id v m, .ok)
    else (s, .full)
  else (s.insertCore parse id v m, .ok)

/-- `HnswBackend::delete` -/
def delete (s : DocStore) (id : Nat) : DocStore × Bool :=
  match alookup id s.e2i with
  | none => (s, false)
  | some o =>
    if !liveAt s.slots o then (s, false) else
    ({ s with slots := tombstone s.slots o, e2i := aerase id s.e2i,
              idx := s.idx.removeDoc parse o (mdAt s.slots o) }, true)

/-- `HnswBackend::batch_delete` (in-memory effect; duplicates in the request count once) -/
def batchDelete (s : DocStore) (ids : List Nat) : DocStore × Nat :=
  ids.foldl (fun acc id =>
    let (s1, b) := acc.1.delete parse id
    (s1, if b then acc.2 + 1 else acc.2)) (s, 0)

/-- `HnswBackend::update_metadata`; the new map is already merged -/
def updateMeta (s : DocStore) (id : Nat) (newMd : MetaMap) : DocStore × Bool :=
  match alookup id s.e2i with
  | none => (s, false)
  | some o =>
    ({ s with slots := s.slots.modify o (fun sl => { sl with md := newMd }),
              idx := s.idx.replaceDoc parse o (mdAt s.slots o) newMd }, true)

/-- `HnswBackend::scan`: live slots in slot order whose metadata satisfies the predicate -/
def scan (s : DocStore) (p : MetaMap → Bool) : List Nat :=
  s.slots.filterMap fun sl => match sl.ext with
    | some id => if p sl.md then some id else none
    | none => none

/-- `HnswBackend::ids_for_metadata_filter` -/
def idsForFilter (s : DocStore) (f : Filter) : List Nat :=
  match compile parse s.idx f with
  | some b =>
    -- a bitmap: ascending, no duplicates
    ((((b.filter fun i => s.idx.alive.contains i).mergeSort (· ≤ ·)).eraseDups).filterMap
      fun i => s.slots[i]?.bind (·.ext))
  | none => s.scan (matchesF parse f)

def lookup (s : DocStore) (id : Nat) : Option Slot := (alookup id s.e2i).bind (s.slots[·]?)

end
end DocStore
end KyroModel
