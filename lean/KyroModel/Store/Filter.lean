/-
Metadata filters: reference semantics (`metadata_filter::matches`) and the inverted-index
evaluation (`compile_filter_to_bitmap` over `MetadataInvertedIndex`) of
engine/src/{metadata_filter,hnsw_backend}.rs.  Core Lean only.

Strings are opaque values of an ordered type; the driver instantiates them with the hex text
of the UTF-8 bytes (same equality and lexicographic order as Rust's `String`).  Whether a
string parses as an `f64`, and to which bits, is a parameter `parse : String → Option Nat`
(both code paths call the same `str::parse::<f64>`; the harness supplies the observed results).
-/
namespace KyroModel

abbrev MetaMap := List (String × String)     -- unique keys

def MetaMap.get (m : MetaMap) (k : String) : Option String := (m.find? (·.1 == k)).map (·.2)

/-! ### IEEE-754 binary64 comparisons on bit patterns -/

def f64IsNaN (b : Nat) : Bool := (b / 2 ^ 52) % 2048 == 2047 && b % 2 ^ 52 != 0

/-- IEEE `<` on non-NaN values, from sign and magnitude (−0 = +0). -/
def f64lt (a b : Nat) : Bool :=
  let sa := a / 2 ^ 63 % 2; let ma := a % 2 ^ 63
  let sb := b / 2 ^ 63 % 2; let mb := b % 2 ^ 63
  if sa == 0 && sb == 0 then decide (ma < mb)
  else if sa == 1 && sb == 1 then decide (mb < ma)
  else if sa == 1 && sb == 0 then !(ma == 0 && mb == 0)
  else false

/-- IEEE `==` on non-NaN values. -/
def f64eq (a b : Nat) : Bool :=
  (a % 2 ^ 63 == 0 && b % 2 ^ 63 == 0) || a % 2 ^ 64 == b % 2 ^ 64

/-- `OrderedF64::from_f64`: canonicalise −0, then flip to a monotone unsigned key. -/
def orderedKey (b0 : Nat) : Nat :=
  let b := if b0 % 2 ^ 63 == 0 then 0 else b0 % 2 ^ 64
  if b / 2 ^ 63 == 0 then b + 2 ^ 63 else 2 ^ 64 - 1 - b

inductive Bound where
  | gte (v : String) | lte (v : String) | gt (v : String) | lt (v : String)
deriving DecidableEq, Repr

def Bound.value : Bound → String
  | .gte v | .lte v | .gt v | .lt v => v

/-- numeric comparison of a value against the bound (both non-NaN or the result is false) -/
def Bound.cmpNum (b : Bound) (x y : Nat) : Bool :=
  if f64IsNaN x || f64IsNaN y then false else
  match b with
  | .gte _ => f64lt y x || f64eq x y
  | .lte _ => f64lt x y || f64eq x y
  | .gt _ => f64lt y x
  | .lt _ => f64lt x y

/-- the same comparison on ordered keys (what the `BTreeMap` range scan does) -/
def Bound.cmpKey (b : Bound) (kx ky : Nat) : Bool :=
  match b with
  | .gte _ => decide (ky ≤ kx)
  | .lte _ => decide (kx ≤ ky)
  | .gt _ => decide (ky < kx)
  | .lt _ => decide (kx < ky)

def Bound.cmpStr (b : Bound) (x : String) : Bool :=
  match b with
  | .gte v => decide (v ≤ x)
  | .lte v => decide (x ≤ v)
  | .gt v => decide (v < x)
  | .lt v => decide (x < v)

inductive Filter where
  | none
  | exact (k v : String)
  | range (k : String) (b : Option Bound)
  | inMatch (k : String) (vs : List String)
  | and (fs : List Filter)
  | or (fs : List Filter)
  | not (f : Option Filter)

section
variable (parse : String → Option Nat)

/-- `matches_range` -/
def matchesRange (k : String) (b : Option Bound) (m : MetaMap) : Bool :=
  match m.get k with
  | none => false
  | some val =>
    match b with
    | none => true
    | some bd =>
      match parse val, parse bd.value with
      | some x, some y => bd.cmpNum x y
      | _, _ => bd.cmpStr val

mutual
/-- `metadata_filter::matches` -/
def matchesF : Filter → MetaMap → Bool
  | .none, _ => true
  | .exact k v, m => m.get k == some v
  | .range k b, m => matchesRange parse k b m
  | .inMatch k vs, m =>
    match m.get k with
    | some val => vs.contains val
    | none => false
  | .and fs, m => allF fs m
  | .or fs, m => anyF fs m
  | .not none, _ => false
  | .not (some f), m => !matchesF f m
def allF : List Filter → MetaMap → Bool
  | [], _ => true
  | f :: fs, m => matchesF f m && allF fs m
def anyF : List Filter → MetaMap → Bool
  | [], _ => false
  | f :: fs, m => matchesF f m || anyF fs m
end

/-! ### The inverted index -/

/-- `MetadataInvertedIndex`: the alive bitmap and four posting relations (tag, slot). -/
structure MetaIndex where
  alive : List Nat
  kv : List ((String × String) × Nat)        -- by_key_value
  lex : List ((String × String) × Nat)       -- by_key_lex
  num : List ((String × Nat) × Nat)          -- by_key_numeric: (key, ordered f64 key)
  numDocs : List (String × Nat)              -- numeric_docs_by_key
deriving Repr

def MetaIndex.empty : MetaIndex := ⟨[], [], [], [], []⟩

/-- tags a metadata map contributes to each posting relation -/
def tagsKV (m : MetaMap) : List (String × String) := m
def tagsNum (m : MetaMap) : List (String × Nat) :=
  m.filterMap fun (k, v) =>
    match parse v with
    | some x => if f64IsNaN x then none else some (k, orderedKey x)
    | none => none
def tagsNumDocs (m : MetaMap) : List String :=
  m.filterMap fun (k, v) => if (parse v).isSome then some k else none

def dropSlot {τ : Type} (l : List (τ × Nat)) (i : Nat) : List (τ × Nat) := l.filter (fun p => p.2 != i)

def dropTags {τ : Type} [DecidableEq τ] (l : List (τ × Nat)) (ts : List τ) (i : Nat) :
    List (τ × Nat) :=
  l.filter (fun p => !(p.2 == i && ts.contains p.1))

/-- `remove_doc_from_all_indexes` -/
def MetaIndex.removeAll (x : MetaIndex) (i : Nat) : MetaIndex :=
  { alive := x.alive.filter (· != i), kv := dropSlot x.kv i, lex := dropSlot x.lex i,
    num := dropSlot x.num i, numDocs := dropSlot x.numDocs i }

/-- `insert_doc` -/
def MetaIndex.insertDoc (x0 : MetaIndex) (i : Nat) (m : MetaMap) : MetaIndex :=
  let x := if x0.alive.contains i then x0.removeAll i else x0
  { alive := i :: x.alive,
    kv := x.kv ++ (tagsKV m).map (·, i),
    lex := x.lex ++ (tagsKV m).map (·, i),
    num := x.num ++ (tagsNum parse m).map (·, i),
    numDocs := x.numDocs ++ (tagsNumDocs parse m).map (·, i) }

/-- `remove_doc` (removes the postings of the metadata it is given) -/
def MetaIndex.removeDoc (x : MetaIndex) (i : Nat) (m : MetaMap) : MetaIndex :=
  { alive := x.alive.filter (· != i),
    kv := dropTags x.kv (tagsKV m) i,
    lex := dropTags x.lex (tagsKV m) i,
    num := dropTags x.num (tagsNum parse m) i,
    numDocs := dropTags x.numDocs (tagsNumDocs parse m) i }

/-- `replace_doc` -/
def MetaIndex.replaceDoc (x : MetaIndex) (i : Nat) (old new : MetaMap) : MetaIndex :=
  (x.removeDoc parse i old).insertDoc parse i new

def slotsOf {τ : Type} (l : List (τ × Nat)) (p : τ → Bool) : List Nat :=
  (l.filter fun e => p e.1).map (·.2)

/-- `compile_range_filter_to_bitmap` -/
def compileRange (x : MetaIndex) (k : String) (b : Option Bound) : List Nat :=
  match b with
  | none => slotsOf x.kv (fun t => t.1 == k)                       -- key presence
  | some bd =>
    let lexB := slotsOf x.lex (fun t => t.1 == k && bd.cmpStr t.2)
    match parse bd.value with
    | none => lexB
    | some bn =>
      let numeric := slotsOf x.numDocs (fun t => t == k)
      let numB := if f64IsNaN bn then [] else
        slotsOf x.num (fun t => t.1 == k && bd.cmpKey t.2 (orderedKey bn))
      lexB.filter (fun i => !numeric.contains i) ++ numB

mutual
/-- `compile_filter_to_bitmap`; `none` = not compilable, the caller falls back to a scan -/
def compile (x : MetaIndex) : Filter → Option (List Nat)
  | .none => some x.alive
  | .exact k v => some (slotsOf x.kv (fun t => t == (k, v)))
  | .inMatch k vs => some (slotsOf x.kv (fun t => t.1 == k && vs.contains t.2))
  | .range k b => some (compileRange parse x k b)
  | .and [] => some x.alive
  | .and (f :: fs) =>
    match compile x f with
    | none => none
    | some acc => compileAnd x acc fs
  | .or fs => compileOr x [] fs
  | .not none => none
  | .not (some f) =>
    match compile x f with
    | none => none
    | some b => some (x.alive.filter fun i => !b.contains i)
def compileAnd (x : MetaIndex) (acc : List Nat) : List Filter → Option (List Nat)
  | [] => some acc
  | f :: fs =>
    match compile x f with
    | none => none
    | some b => compileAnd x (acc.filter fun i => b.contains i) fs
def compileOr (x : MetaIndex) (acc : List Nat) : List Filter → Option (List Nat)
  | [] => some acc
  | f :: fs =>
    match compile x f with
    | none => none
    | some b => compileOr x (acc ++ b) fs
end

end
end KyroModel
