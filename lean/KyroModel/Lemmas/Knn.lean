/-
Lemmas about the k-NN merge: insertion sort is a sorted permutation, de-duplication keeps ids
distinct and prefers the recent-write tier, truncation of a sorted list keeps the closest.
-/
import KyroModel.Tiered.Knn

namespace KyroModel.Knn

theorem le_total (a b : Cand) : le a b = true ∨ le b a = true := by
  simp only [le, Bool.or_eq_true, Bool.and_eq_true, decide_eq_true_eq, beq_iff_eq]
  omega

theorem le_trans {a b c : Cand} (h1 : le a b = true) (h2 : le b c = true) : le a c = true := by
  simp only [le, Bool.or_eq_true, Bool.and_eq_true, decide_eq_true_eq, beq_iff_eq] at *
  omega

theorem le_key {a b : Cand} (h : le a b = true) : a.key ≤ b.key := by
  simp only [le, Bool.or_eq_true, Bool.and_eq_true, decide_eq_true_eq, beq_iff_eq] at h
  omega

theorem perm_insertSorted (c : Cand) (l : List Cand) : (insertSorted c l).Perm (c :: l) := by
  induction l with
  | nil => exact List.Perm.refl _
  | cons x xs ih =>
    simp only [insertSorted]
    split
    · exact List.Perm.refl _
    · exact (List.Perm.cons x ih).trans (List.Perm.swap c x xs)

theorem perm_sortCands (l : List Cand) : (sortCands l).Perm l := by
  induction l with
  | nil => exact List.Perm.refl _
  | cons x xs ih =>
    have : sortCands (x :: xs) = insertSorted x (sortCands xs) := rfl
    rw [this]
    exact (perm_insertSorted x _).trans (List.Perm.cons x ih)

def Sorted (l : List Cand) : Prop := l.Pairwise (fun a b => le a b = true)

theorem sorted_insertSorted (c : Cand) (l : List Cand) (h : Sorted l) : Sorted (insertSorted c l) := by
  induction l with
  | nil => simp [insertSorted, Sorted]
  | cons x xs ih =>
    have hx := List.pairwise_cons.mp h
    simp only [insertSorted]
    split
    · rename_i hcx
      refine List.pairwise_cons.mpr ⟨?_, h⟩
      intro y hy
      rcases List.mem_cons.mp hy with rfl | hy
      · exact hcx
      · exact le_trans hcx (hx.1 y hy)
    · rename_i hcx
      have hxc : le x c = true := by
        rcases le_total c x with h1 | h1
        · exact (hcx h1).elim
        · exact h1
      refine List.pairwise_cons.mpr ⟨?_, ih hx.2⟩
      intro y hy
      have := (perm_insertSorted c xs).mem_iff.mp hy
      rcases List.mem_cons.mp this with rfl | hy'
      · exact hxc
      · exact hx.1 y hy'

theorem sorted_sortCands (l : List Cand) : Sorted (sortCands l) := by
  induction l with
  | nil => simp [sortCands, Sorted]
  | cons x xs ih =>
    have : sortCands (x :: xs) = insertSorted x (sortCands xs) := rfl
    rw [this]
    exact sorted_insertSorted x _ ih

/-- what truncation drops is no closer than anything it keeps -/
theorem take_keeps_closest (l : List Cand) (hs : Sorted l) (k : Nat) (x : Cand) (hx : x ∈ l)
    (hnot : x ∉ l.take k) : (l.take k).length = k ∧ ∀ r ∈ l.take k, le r x = true := by
  have hsplit : l = l.take k ++ l.drop k := (List.take_append_drop k l).symm
  have hd : x ∈ l.drop k := by
    rw [hsplit] at hx
    rcases List.mem_append.mp hx with h | h
    · exact (hnot h).elim
    · exact h
  have hlen : k ≤ l.length := by
    apply Classical.byContradiction
    intro hc
    have : l.drop k = [] := List.drop_eq_nil_of_le (by omega)
    rw [this] at hd
    cases hd
  refine ⟨by rw [List.length_take]; omega, ?_⟩
  intro r hr
  unfold Sorted at hs
  rw [hsplit, List.pairwise_append] at hs
  exact hs.2.2 r hr x hd

/-! ### de-duplication -/

def hotFold (hot : List Cand) : List Cand :=
  hot.foldl (fun acc c => c :: acc.filter (·.id != c.id)) []

def coldFold (acc cold : List Cand) : List Cand :=
  cold.foldl (fun acc c => if hasId acc c.id then acc else c :: acc) acc

theorem dedup_eq (hot cold : List Cand) : dedup hot cold = coldFold (hotFold hot) cold := rfl

def NodupIds (l : List Cand) : Prop := (l.map (·.id)).Nodup

theorem hasId_iff (l : List Cand) (id : Nat) : hasId l id = true ↔ id ∈ l.map (·.id) := by
  simp [hasId, List.any_eq_true]

theorem nodup_filter (l : List Cand) (p : Cand → Bool) (h : NodupIds l) : NodupIds (l.filter p) := by
  unfold NodupIds at *
  induction l with
  | nil => simp
  | cons x xs ih =>
    simp only [List.map_cons, List.nodup_cons] at h
    simp only [List.filter_cons]
    split
    · simp only [List.map_cons, List.nodup_cons]
      refine ⟨?_, ih h.2⟩
      intro hm
      apply h.1
      obtain ⟨c, hc, hid⟩ := List.mem_map.mp hm
      exact List.mem_map.mpr ⟨c, (List.mem_filter.mp hc).1, hid⟩
    · exact ih h.2

theorem hotStep_nodup (acc : List Cand) (c : Cand) (h : NodupIds acc) :
    NodupIds (c :: acc.filter (·.id != c.id)) := by
  unfold NodupIds
  simp only [List.map_cons, List.nodup_cons]
  refine ⟨?_, nodup_filter acc _ h⟩
  intro hm
  obtain ⟨x, hx, hid⟩ := List.mem_map.mp hm
  have := (List.mem_filter.mp hx).2
  simp [hid] at this

theorem hotFold_nodup_aux (hot acc : List Cand) (h : NodupIds acc) :
    NodupIds (hot.foldl (fun acc c => c :: acc.filter (·.id != c.id)) acc) := by
  induction hot generalizing acc with
  | nil => exact h
  | cons c rest ih => exact ih _ (hotStep_nodup acc c h)

theorem hotFold_nodup (hot : List Cand) : NodupIds (hotFold hot) :=
  hotFold_nodup_aux hot [] (by simp [NodupIds])

theorem coldFold_nodup (cold acc : List Cand) (h : NodupIds acc) : NodupIds (coldFold acc cold) := by
  induction cold generalizing acc with
  | nil => exact h
  | cons c rest ih =>
    simp only [coldFold, List.foldl_cons]
    split
    · exact ih acc h
    · rename_i hn
      apply ih
      unfold NodupIds
      simp only [List.map_cons, List.nodup_cons]
      refine ⟨?_, h⟩
      intro hm
      exact hn ((hasId_iff acc c.id).mpr hm)

theorem dedup_nodup (hot cold : List Cand) : NodupIds (dedup hot cold) :=
  coldFold_nodup cold _ (hotFold_nodup hot)

/-- members of the hot fold come from the hot list -/
theorem hotFold_sub_aux (hot acc : List Cand) (x : Cand)
    (hx : x ∈ hot.foldl (fun acc c => c :: acc.filter (·.id != c.id)) acc) : x ∈ hot ∨ x ∈ acc := by
  induction hot generalizing acc with
  | nil => exact Or.inr hx
  | cons c rest ih =>
    rcases ih _ hx with h | h
    · exact Or.inl (List.mem_cons_of_mem _ h)
    · rcases List.mem_cons.mp h with rfl | h
      · exact Or.inl (List.mem_cons_self ..)
      · exact Or.inr (List.mem_filter.mp h).1

theorem hotFold_sub (hot : List Cand) (x : Cand) (hx : x ∈ hotFold hot) : x ∈ hot := by
  rcases hotFold_sub_aux hot [] x hx with h | h
  · exact h
  · cases h

/-- with distinct ids in the hot list nothing of it is dropped -/
theorem hotFold_keeps_aux (hot acc : List Cand) (x : Cand)
    (hnd : NodupIds hot) (hx : x ∈ hot ∨ (x ∈ acc ∧ x.id ∉ hot.map (·.id))) :
    x ∈ hot.foldl (fun acc c => c :: acc.filter (·.id != c.id)) acc := by
  induction hot generalizing acc with
  | nil =>
    rcases hx with h | h
    · cases h
    · exact h.1
  | cons c rest ih =>
    unfold NodupIds at hnd
    simp only [List.map_cons, List.nodup_cons] at hnd
    simp only [List.foldl_cons]
    apply ih _ hnd.2
    rcases hx with h | h
    · rcases List.mem_cons.mp h with rfl | h
      · exact Or.inr ⟨List.mem_cons_self .., hnd.1⟩
      · exact Or.inl h
    · right
      simp only [List.map_cons, List.mem_cons, not_or] at h
      refine ⟨List.mem_cons_of_mem _ (List.mem_filter.mpr ⟨h.1, ?_⟩), h.2.2⟩
      simp [h.2.1]

theorem hotFold_keeps (hot : List Cand) (hnd : NodupIds hot) (x : Cand) (hx : x ∈ hot) :
    x ∈ hotFold hot := hotFold_keeps_aux hot [] x hnd (Or.inl hx)

theorem coldFold_mono (cold acc : List Cand) (x : Cand) (hx : x ∈ acc) : x ∈ coldFold acc cold := by
  induction cold generalizing acc with
  | nil => exact hx
  | cons c rest ih =>
    simp only [coldFold, List.foldl_cons]
    split
    · exact ih acc hx
    · exact ih _ (List.mem_cons_of_mem _ hx)

/-- members of the cold fold: from the accumulator, or from the cold list with an id the
    accumulator did not have -/
theorem coldFold_sub (cold acc : List Cand) (x : Cand) (hx : x ∈ coldFold acc cold) :
    x ∈ acc ∨ (x ∈ cold ∧ hasId acc x.id = false) := by
  induction cold generalizing acc with
  | nil => exact Or.inl hx
  | cons c rest ih =>
    simp only [coldFold, List.foldl_cons] at hx
    split at hx
    · rcases ih acc hx with h | h
      · exact Or.inl h
      · exact Or.inr ⟨List.mem_cons_of_mem _ h.1, h.2⟩
    · rename_i hn
      rcases ih _ hx with h | h
      · rcases List.mem_cons.mp h with rfl | h
        · exact Or.inr ⟨List.mem_cons_self .., by simpa using hn⟩
        · exact Or.inl h
      · refine Or.inr ⟨List.mem_cons_of_mem _ h.1, ?_⟩
        have := h.2
        simp only [hasId, List.any_cons, Bool.or_eq_false_iff] at this
        exact this.2

/-! ### the widening scan -/

theorem canon_append (a b : List (Cand × V)) : canon (a ++ b) = canon a ++ canon b := by
  simp [canon]

theorem canon_keepLive (l : List (Cand × V)) : canon (keepLive l) = canon l := by
  induction l with
  | nil => rfl
  | cons x rest ih =>
    obtain ⟨c, v⟩ := x
    cases v <;> simp_all [canon, keepLive, List.filter_cons]

theorem canon_split (all : List (Cand × V)) (n : Nat) :
    canon all = canon (all.take n) ++ canon (all.drop n) := by
  rw [← canon_append, List.take_append_drop]

theorem keepLive_length_le (l : List (Cand × V)) : (keepLive l).length ≤ l.length :=
  List.length_filter_le _ _

theorem canon_length_le (l : List (Cand × V)) : (canon l).length ≤ l.length := by
  simp only [canon, List.length_map]
  exact List.length_filter_le _ _

/-- **The widening scan returns the first `limit` canonical candidates of the whole tier**, however
    many stale mirrors sit in front of them. -/
theorem widenF_spec (fuel : Nat) (all : List (Cand × V)) (fetch limit : Nat)
    (hlf : limit ≤ fetch) (hfuel : all.length < fuel + fetch) :
    (widenF (fuel + 1) all fetch limit).2 = (canon all).take limit := by
  induction fuel generalizing all fetch with
  | zero =>
    have hlt : (all.take fetch).length < fetch := by rw [List.length_take]; omega
    have hall : all.take fetch = all := List.take_of_length_le (by omega)
    have hlt' : all.length < fetch := by omega
    simp [widenF, hall, hlt']
  | succ fuel ih =>
    rw [widenF]
    split
    · rename_i hc
      simp only [Bool.or_eq_true, decide_eq_true_eq] at hc
      rcases hc with hc | hc
      · have hall : all.take fetch = all :=
          List.take_of_length_le (by rw [List.length_take] at hc; omega)
        rw [hall]
      · show (canon (all.take fetch)).take limit = (canon all).take limit
        rw [canon_split all fetch, List.take_append_of_le_length hc]
    · rename_i hc
      simp only [Bool.or_eq_true, decide_eq_true_eq, not_or, Nat.not_lt, Nat.not_le] at hc
      have hraw : (all.take fetch).length = fetch := by
        have := List.length_take_le fetch all
        omega
      have hk := canon_length_le (all.take fetch)
      rw [ih]
      · rw [canon_append, canon_keepLive, ← canon_split]
      · omega
      · have h1 := keepLive_length_le (all.take fetch)
        have h2 : (all.drop fetch).length = all.length - fetch := List.length_drop
        rw [List.length_append]
        rw [List.length_take] at hraw
        omega

/-- a duplicate-free list whose members all lie in `S` and satisfy `p` is no longer than the
    number of members of `S` satisfying `p` -/
theorem length_le_countP (l S : List Cand) (p : Cand → Bool) (hn : l.Nodup)
    (h : ∀ a ∈ l, a ∈ S ∧ p a = true) : l.length ≤ S.countP p := by
  induction l generalizing S with
  | nil => simp
  | cons a t ih =>
    have ha := h a (List.mem_cons_self ..)
    have hp : S.Perm (a :: S.erase a) := List.perm_cons_erase ha.1
    rw [hp.countP_eq, List.countP_cons_of_pos ha.2]
    have hnt := List.nodup_cons.mp hn
    have := ih (S.erase a) hnt.2 (fun b hb => by
      have hb' := h b (List.mem_cons_of_mem _ hb)
      refine ⟨?_, hb'.2⟩
      have hne : b ≠ a := fun e => hnt.1 (e ▸ hb)
      exact (List.mem_erase_of_ne hne).mpr hb'.1)
    simp only [List.length_cons]
    omega

/-- in a sorted list with at least `k` members no farther than `x`, the first `k` are all no
    farther than `x` -/
theorem take_le_of_countP (S : List Cand) (hs : Sorted S) (x k : Nat)
    (hc : k ≤ S.countP (fun c => decide (c.key ≤ x))) :
    (S.take k).length = k ∧ ∀ r ∈ S.take k, r.key ≤ x := by
  induction S generalizing k with
  | nil =>
    simp only [List.countP_nil, Nat.le_zero_eq] at hc
    subst hc
    simp
  | cons a t ih =>
    cases k with
    | zero => simp
    | succ k =>
      unfold Sorted at hs
      rw [List.pairwise_cons] at hs
      by_cases ha : a.key ≤ x
      · rw [List.countP_cons_of_pos (by simpa using ha)] at hc
        obtain ⟨h1, h2⟩ := ih hs.2 k (by omega)
        refine ⟨by simp [List.take_succ_cons, h1], ?_⟩
        intro r hr
        rw [List.take_succ_cons] at hr
        rcases List.mem_cons.mp hr with rfl | hr
        · exact ha
        · exact h2 r hr
      · rw [List.countP_cons_of_neg (by simpa using ha)] at hc
        have hz : t.countP (fun c => decide (c.key ≤ x)) = 0 := by
          rw [List.countP_eq_zero]
          intro b hb
          have := le_key (hs.1 b hb)
          simp only [decide_eq_true_eq]
          omega
        omega


theorem nodup_of_nodupIds (l : List Cand) (h : NodupIds l) : l.Nodup := by
  unfold NodupIds at h
  induction l with
  | nil => exact List.nodup_nil
  | cons a t ih =>
    rw [List.map_cons, List.nodup_cons] at h
    rw [List.nodup_cons]
    exact ⟨fun hm => h.1 (List.mem_map.mpr ⟨a, hm, rfl⟩), ih h.2⟩

theorem eq_of_id_eq (l : List Cand) (h : NodupIds l) {x c : Cand} (hx : x ∈ l) (hc : c ∈ l)
    (hid : x.id = c.id) : x = c := by
  unfold NodupIds at h
  induction l with
  | nil => cases hx
  | cons a t ih =>
    rw [List.map_cons, List.nodup_cons] at h
    rcases List.mem_cons.mp hx with rfl | hx' <;> rcases List.mem_cons.mp hc with rfl | hc'
    · rfl
    · exact (h.1 (List.mem_map.mpr ⟨c, hc', hid.symm⟩)).elim
    · exact (h.1 (List.mem_map.mpr ⟨x, hx', hid⟩)).elim
    · exact ih h.2 hx' hc'

end KyroModel.Knn
