/-
Lemmas about the k-NN merge: insertion sort is a sorted permutation, de-duplication keeps ids
distinct and prefers the recent-write tier, truncation of a sorted list keeps the closest.
-/
import KyroModel.Tiered.Knn

namespace KyroModel.Knn

theorem le_total (a b : Cand) : le a b = true ∨ le b a = true := by
  simp only [le, Bool.or_eq_true, Bool.and_eq_true, decide_eq_true_eq, beq_iff_eq]
  omega

theorem le_trans {a b c : Cand} (h1 : le a b = true) (h2 : le b c = true) : le a c = true := by
  simp only [le, Bool.or_eq_true, Bool.and_eq_true, decide_eq_true_eq, beq_iff_eq] at *
  omega

theorem le_key {a b : Cand} (h : le a b = true) : a.key ≤ b.key := by
  simp only [le, Bool.or_eq_true, Bool.and_eq_true, decide_eq_true_eq, beq_iff_eq] at h
  omega

theorem perm_insertSorted (c : Cand) (l : List Cand) : (insertSorted c l).Perm (c :: l) := by
  induction l with
  | nil => exact List.Perm.refl _
  | cons x xs ih =>
    simp only [insertSorted]
    split
    · exact List.Perm.refl _
    · exact (List.Perm.cons x ih).trans (List.Perm.swap c x xs)

theorem perm_sortCands (l : List Cand) : (sortCands l).Perm l := by
  induction l with
  | nil => exact List.Perm.refl _
  | cons x xs ih =>
    have : sortCands (x :: xs) = insertSorted x (sortCands xs) := rfl
    rw [this]
    exact (perm_insertSorted x _).trans (List.Perm.cons x ih)

def Sorted (l : List Cand) : Prop := l.Pairwise (fun a b => le a b = true)

theorem sorted_insertSorted (c : Cand) (l : List Cand) (h : Sorted l) : Sorted (insertSorted c l) := by
  induction l with
  | nil => simp [insertSorted, Sorted]
  | cons x xs ih =>
    have hx := List.pairwise_cons.mp h
    simp only [insertSorted]
    split
    · rename_i hcx
      refine List.pairwise_cons.mpr ⟨?_, h⟩
      intro y hy
      rcases List.mem_cons.mp hy with rfl | hy
      · exact hcx
      · exact le_trans hcx (hx.1 y hy)
    · rename_i hcx
      have hxc : le x c = true := by
        rcases le_total c x with h1 | h1
        · exact (hcx h1).elim
        · exact h1
      refine List.pairwise_cons.mpr ⟨?_, ih hx.2⟩
      intro y hy
      have := (perm_insertSorted c xs).mem_iff.mp hy
      rcases List.mem_cons.mp this with rfl | hy'
      · exact hxc
      · exact hx.1 y hy'

theorem sorted_sortCands (l : List Cand) : Sorted (sortCands l) := by
  induction l with
  | nil => simp [sortCands, Sorted]
  | cons x xs ih =>
    have : sortCands (x :: xs) = insertSorted x (sortCands xs) := rfl
    rw [this]
    exact sorted_insertSorted x _ ih

/-- what truncation drops is no closer than anything it keeps -/
theorem take_keeps_closest (l : List Cand) (hs : Sorted l) (k : Nat) (x : Cand) (hx : x ∈ l)
    (hnot : x ∉ l.take k) : (l.take k).length = k ∧ ∀ r ∈ l.take k, le r x = true := by
  have hsplit : l = l.take k ++ l.drop k := (List.take_append_drop k l).symm
  have hd : x ∈ l.drop k := by
    rw [hsplit] at hx
    rcases List.mem_append.mp hx with h | h
    · exact (hnot h).elim
    · exact h
  have hlen : k ≤ l.length := by
    apply Classical.byContradiction
    intro hc
    have : l.drop k = [] := List.drop_eq_nil_of_le (by omega)
    rw [this] at hd
    cases hd
  refine ⟨by rw [List.length_take]; omega, ?_⟩
  intro r hr
  unfold Sorted at hs
  rw [hsplit, List.pairwise_append] at hs
  exact hs.2.2 r hr x hd

/-! ### de-duplication -/

def hotFold (hot : List Cand) : List Cand :=
  hot.foldl (fun acc c => c :: acc.filter (·.id != c.id)) []

def coldFold (acc cold : List Cand) : List Cand :=
  cold.foldl (fun acc c => if hasId acc c.id then acc else c :: acc) acc

theorem dedup_eq (hot cold : List Cand) : dedup hot cold = coldFold (hotFold hot) cold := rfl

def NodupIds (l : List Cand) : Prop := (l.map (·.id)).Nodup

theorem hasId_iff (l : List Cand) (id : Nat) : hasId l id = true ↔ id ∈ l.map (·.id) := by
  simp [hasId, List.any_eq_true]

theorem nodup_filter (l : List Cand) (p : Cand → Bool) (h : NodupIds l) : NodupIds (l.filter p) := by
  unfold NodupIds at *
  induction l with
  | nil => simp
  | cons x xs ih =>
    simp only [List.map_cons, List.nodup_cons] at h
    simp only [List.filter_cons]
    split
    · simp only [List.map_cons, List.nodup_cons]
      refine ⟨?_, ih h.2⟩
      intro hm
      apply h.1
      obtain ⟨c, hc, hid⟩ := List.mem_map.mp hm
      exact List.mem_map.mpr ⟨c, (List.mem_filter.mp hc).1, hid⟩
    · exact ih h.2

theorem hotStep_nodup (acc : List Cand) (c : Cand) (h : NodupIds acc) :
    NodupIds (c :: acc.filter (·.id != c.id)) := by
  unfold NodupIds
  simp only [List.map_cons, List.nodup_cons]
  refine ⟨?_, nodup_filter acc _ h⟩
  intro hm
  obtain ⟨x, hx, hid⟩ := List.mem_map.mp hm
  have := (List.mem_filter.mp hx).2
  simp [hid] at this

theorem hotFold_nodup_aux (hot acc : List Cand) (h : NodupIds acc) :
    NodupIds (hot.foldl (fun acc c => c :: acc.filter (·.id != c.id)) acc) := by
  induction hot generalizing acc with
  | nil => exact h
  | cons c rest ih => exact ih _ (hotStep_nodup acc c h)

theorem hotFold_nodup (hot : List Cand) : NodupIds (hotFold hot) :=
  hotFold_nodup_aux hot [] (by simp [NodupIds])

theorem coldFold_nodup (cold acc : List Cand) (h : NodupIds acc) : NodupIds (coldFold acc cold) := by
  induction cold generalizing acc with
  | nil => exact h
  | cons c rest ih =>
    simp only [coldFold, List.foldl_cons]
    split
    · exact ih acc h
    · rename_i hn
      apply ih
      unfold NodupIds
      simp only [List.map_cons, List.nodup_cons]
      refine ⟨?_, h⟩
      intro hm
      exact hn ((hasId_iff acc c.id).mpr hm)

theorem dedup_nodup (hot cold : List Cand) : NodupIds (dedup hot cold) :=
  coldFold_nodup cold _ (hotFold_nodup hot)

/-- members of the hot fold come from the hot list -/
theorem hotFold_sub_aux (hot acc : List Cand) (x : Cand)
    (hx : x ∈ hot.foldl (fun acc c => c :: acc.filter (·.id != c.id)) acc) : x ∈ hot ∨ x ∈ acc := by
  induction hot generalizing acc with
  | nil => exact Or.inr hx
  | cons c rest ih =>
    rcases ih _ hx with h | h
    · exact Or.inl (List.mem_cons_of_mem _ h)
    · rcases List.mem_cons.mp h with rfl | h
      · exact Or.inl (List.mem_cons_self ..)
      · exact Or.inr (List.mem_filter.mp h).1

theorem hotFold_sub (hot : List Cand) (x : Cand) (hx : x ∈ hotFold hot) : x ∈ hot := by
  rcases hotFold_sub_aux hot [] x hx with h | h
  · exact h
  · cases h

/-- with distinct ids in the hot list nothing of it is dropped -/
theorem hotFold_keeps_aux (hot acc : List Cand) (x : Cand)
    (hnd : NodupIds hot) (hx : x ∈ hot ∨ (x ∈ acc ∧ x.id ∉ hot.map (·.id))) :
    x ∈ hot.foldl (fun acc c => c :: acc.filter (·.id != c.id)) acc := by
  induction hot generalizing acc with
  | nil =>
    rcases hx with h | h
    · cases h
    · exact h.1
  | cons c rest ih =>
    unfold NodupIds at hnd
    simp only [List.map_cons, List.nodup_cons] at hnd
    simp only [List.foldl_cons]
    apply ih _ hnd.2
    rcases hx with h | h
    · rcases List.mem_cons.mp h with rfl | h
      · exact Or.inr ⟨List.mem_cons_self .., hnd.1⟩
      · exact Or.inl h
    · right
      simp only [List.map_cons, List.mem_cons, not_or] at h
      refine ⟨List.mem_cons_of_mem _ (List.mem_filter.mpr ⟨h.1, ?_⟩), h.2.2⟩
      simp [h.2.1]

theorem hotFold_keeps (hot : List Cand) (hnd : NodupIds hot) (x : Cand) (hx : x ∈ hot) :
    x ∈ hotFold hot := hotFold_keeps_aux hot [] x hnd (Or.inl hx)

theorem coldFold_mono (cold acc : List Cand) (x : Cand) (hx : x ∈ acc) : x ∈ coldFold acc cold := by
  induction cold generalizing acc with
  | nil => exact hx
  | cons c rest ih =>
    simp only [coldFold, List.foldl_cons]
    split
    · exact ih acc hx
    · exact ih _ (List.mem_cons_of_mem _ hx)

/-- members of the cold fold: from the accumulator, or from the cold list with an id the
    accumulator did not have -/
theorem coldFold_sub (cold acc : List Cand) (x : Cand) (hx : x ∈ coldFold acc cold) :
    x ∈ acc ∨ (x ∈ cold ∧ hasId acc x.id = false) := by
  induction cold generalizing acc with
  | nil => exact Or.inl hx
  | cons c rest ih =>
    simp only [coldFold, List.foldl_cons] at hx
    split at hx
    · rcases ih acc hx with h | h
      · exact Or.inl h
      · exact Or.inr ⟨List.mem_cons_of_mem _ h.1, h.2⟩
    · rename_i hn
      rcases ih _ hx with h | h
      · rcases List.mem_cons.mp h with rfl | h
        · exact Or.inr ⟨List.mem_cons_self .., by simpa using hn⟩
        · exact Or.inl h
      · refine Or.inr ⟨List.mem_cons_of_mem _ h.1, ?_⟩
        have := h.2
        simp only [hasId, List.any_cons, Bool.or_eq_false_iff] at this
        exact this.2

end KyroModel.Knn
