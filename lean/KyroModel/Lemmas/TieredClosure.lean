/-
Closure lemma: every engine operation touches the L1a document cache only through
`get`, `insert` and `invalidate`.  Any predicate closed under those three is therefore an
invariant of every operation — used for the size bound (C20) and for "capacities are
constant".
-/
import KyroModel.Lemmas.Cache

namespace KyroModel
section
variable {D : Type} [DecidableEq D] (digest : Vec → D)

structure L1Closed (P : L1a D → Prop) : Prop where
  get : ∀ l id, P l → P (l.get id).1
  insert : ∀ l id e, P l → P (l.insert id e)
  invalidate : ∀ l id, P l → P (l.invalidate id)

variable {P : L1a D → Prop} (hc : L1Closed P)
include hc

theorem closed_foldl_invalidate (ids : List Nat) (l : L1a D) (h : P l) :
    P (ids.foldl (fun l id => l.invalidate id) l) := by
  induction ids generalizing l with
  | nil => exact h
  | cons i rest ih => exact ih _ (hc.invalidate l i h)

theorem closed_discardHot (s : TState D) (id : Nat) (h : P s.l1a) : P (discardHot s id).l1a :=
  hc.invalidate _ _ h

theorem closed_admitTo (s : TState D) (a : Bool) (id : Nat) (v : Vec) (t : Token D)
    (h : P s.l1a) : P (admitTo s a id v t).l1a := by
  unfold admitTo; split
  · exact hc.insert _ _ _ h
  · exact h

theorem closed_hotLeg (s : TState D) (id : Nat) (h : P s.l1a) : P (hotLeg digest s id).1.l1a := by
  unfold hotLeg
  split
  · split
    · exact h
    · exact closed_discardHot hc s id h
    · exact closed_discardHot hc s id h
    · exact h
  · exact h

theorem closed_queryL1 (s : TState D) (id : Nat) (h : P s.l1a) : P (queryL1 digest s id).1.l1a := by
  have hg := hc.get s.l1a id h
  unfold queryL1
  simp only
  split
  · split
    · exact hg
    · exact hc.invalidate _ _ hg
  · exact hg

theorem closed_queryL2 (s : TState D) (id : Nat) (a : Bool) (h : P s.l1a) :
    P (queryL2 digest s id a).1.l1a := by
  unfold queryL2
  split
  · split
    · exact closed_admitTo hc _ _ _ _ _ h
    · exact closed_discardHot hc s id h
    · exact closed_discardHot hc s id h
    · exact h
  · exact h

theorem closed_queryL3 (s : TState D) (id : Nat) (a : Bool) (h : P s.l1a) :
    P (queryL3 digest s id a).1.l1a := by
  unfold queryL3
  split
  · exact closed_admitTo hc _ _ _ _ _ h
  · exact h

theorem closed_query (s : TState D) (id : Nat) (a : Bool) (h : P s.l1a) :
    P (query digest s id a).1.l1a := by
  have h1 := closed_queryL1 digest hc s id h
  unfold query
  generalize queryL1 digest s id = r1 at h1 ⊢
  obtain ⟨s1, o1⟩ := r1
  cases o1 with
  | some v => exact h1
  | none =>
    simp only at h1 ⊢
    have h2 := closed_queryL2 digest hc s1 id a h1
    generalize queryL2 digest s1 id a = r2 at h2 ⊢
    obtain ⟨s2, o2⟩ := r2
    cases o2 with
    | some v => exact h2
    | none =>
      simp only at h2 ⊢
      have h3 := closed_queryL3 digest hc s2 id a h2
      generalize queryL3 digest s2 id a = r3 at h3 ⊢
      obtain ⟨s3, o3⟩ := r3
      cases o3 <;> exact h3

theorem closed_docWithMeta (s : TState D) (id : Nat) (h : P s.l1a) :
    P (docWithMeta digest s id).1.l1a := by
  unfold docWithMeta
  split
  · have h1 := closed_hotLeg digest hc s id h
    generalize hotLeg digest s id = r at h1 ⊢
    obtain ⟨s1, o⟩ := r
    cases o with
    | some v => exact h1
    | none => simp only at h1 ⊢; split <;> exact h1
  · exact h

theorem closed_peekLeg (s : TState D) (id : Nat) (h : P s.l1a) :
    P (peekLeg digest s id).1.l1a := by
  unfold peekLeg
  split
  · split
    · exact h
    · exact hc.invalidate _ _ h
  · exact h

theorem closed_embAware (s : TState D) (id : Nat) (h : P s.l1a) :
    P (embAware digest s id).1.l1a := by
  have h1 := closed_peekLeg digest hc s id h
  unfold embAware
  generalize peekLeg digest s id = r1 at h1 ⊢
  obtain ⟨s1, o1⟩ := r1
  cases o1 with
  | some v => exact h1
  | none =>
    simp only at h1 ⊢
    have h2 := closed_hotLeg digest hc s1 id h1
    generalize hotLeg digest s1 id = r2 at h2 ⊢
    obtain ⟨s2, o2⟩ := r2
    cases o2 <;> exact h2

theorem closed_bulkOne (s : TState D) (id : Nat) (h : P s.l1a) :
    P (bulkOne digest s id).1.l1a := by
  unfold bulkOne
  split
  · split
    · split <;> exact h
    · exact closed_discardHot hc s id h
    · exact closed_discardHot hc s id h
    · exact h
  · exact h

theorem closed_bulkPass (ids : List Nat) (s : TState D) (h : P s.l1a) :
    P (bulkPass digest s ids).1.l1a := by
  induction ids generalizing s with
  | nil => exact h
  | cons i rest ih =>
    unfold bulkPass
    have h1 := closed_bulkOne digest hc s i h
    generalize bulkOne digest s i = r at h1 ⊢
    obtain ⟨s1, o⟩ := r
    simp only at h1 ⊢
    have h2 := ih s1 h1
    generalize bulkPass digest s1 rest = r2 at h2 ⊢
    obtain ⟨s2, rs⟩ := r2
    exact h2

theorem closed_bulkQuery (s : TState D) (ids : List Nat) (h : P s.l1a) :
    P (bulkQuery digest s ids).1.l1a := by
  unfold bulkQuery
  have := closed_bulkPass digest hc ids s h
  generalize bulkPass digest s ids = r at this ⊢
  obtain ⟨s1, fp⟩ := r
  exact this

theorem closed_reconcile (docs : List (Nat × HotDoc D))
    (acc : TState D × List (Nat × HotDoc D) × Nat × Bool) (h : P acc.1.l1a) :
    P (docs.foldl
      (fun (acc : TState D × List (Nat × HotDoc D) × Nat × Bool) p =>
        let (st, failed, ok, clr) := acc
        let (id, h) := p
        match alookup id st.cold with
        | some d =>
          let tokDiv := coldToken digest d ≠ h.tok
          let embDiv := d.vec ≠ h.vec
          let mdDiv := d.md ≠ h.md
          let st1 := if embDiv then { st with l1a := st.l1a.invalidate id } else st
          (st1, failed, ok + 1, clr || decide tokDiv || decide embDiv || decide mdDiv)
        | none =>
          if h.vec.length = st.cfg.dim then
            ({ st with cold := st.cold.insert id h.vec h.md }, failed, ok + 1, true)
          else
            (st, failed ++ [(id, h)], ok, clr)) acc).1.l1a := by
  induction docs generalizing acc with
  | nil => exact h
  | cons p rest ih =>
    rw [List.foldl_cons]
    apply ih
    obtain ⟨st, failed, ok, clr⟩ := acc
    obtain ⟨id, hd⟩ := p
    simp only at h ⊢
    split
    · simp only
      split
      · exact hc.invalidate _ _ h
      · exact h
    · split <;> exact h

theorem closed_drainNonEmpty (s : TState D) (h : P s.l1a) : P (drainNonEmpty digest s).1.l1a := by
  unfold drainNonEmpty reconcile
  have := closed_reconcile digest hc s.hot ({ s with hot := [] }, [], 0, false) h
  generalize (s.hot.foldl _ (({ s with hot := [] } : TState D), [], 0, false)) = r at this ⊢
  obtain ⟨s1, failed, ok, clr⟩ := r
  simp only at this ⊢
  split
  · exact this
  · split <;> exact this

theorem closed_drain (s : TState D) (h : P s.l1a) : P (drain digest s).1.l1a := by
  unfold drain
  split
  · exact h
  · exact closed_drainNonEmpty digest hc s h

theorem closed_flush (s : TState D) (f : Bool) (h : P s.l1a) : P (flush digest s f).1.l1a := by
  unfold flush
  split
  · exact h
  · exact closed_drain digest hc s h

theorem closed_insertCore (s : TState D) (id : Nat) (v : Vec) (m : Meta) (a : Bool)
    (h : P s.l1a) : P (insertCore digest s id v m a).1.l1a := by
  unfold insertCore
  split
  · exact hc.invalidate _ _ h
  · split <;> exact hc.invalidate _ _ h

theorem closed_insert (s : TState D) (id : Nat) (v : Vec) (m : Meta) (a : Bool) (h : P s.l1a) :
    P (insert digest s id v m a).1.l1a := by
  unfold insert
  split
  · have hd := closed_drain digest hc s h
    generalize drain digest s = r at hd ⊢
    obtain ⟨s1, o⟩ := r
    cases o with
    | none => exact hd
    | some n => exact closed_insertCore digest hc s1 id v m a hd
  · exact closed_insertCore digest hc s id v m a h

theorem closed_delete (s : TState D) (id : Nat) (h : P s.l1a) : P (delete s id).1.l1a := by
  unfold delete
  split
  · exact h
  · exact hc.invalidate _ _ h

theorem closed_batchDelete (s : TState D) (ids : List Nat) (h : P s.l1a) :
    P (batchDelete s ids).1.l1a := by
  unfold batchDelete
  split
  · exact h
  · exact closed_foldl_invalidate hc _ _ h

theorem closed_updateMeta (s : TState D) (id : Nat) (m : Meta) (mg : Bool) (h : P s.l1a) :
    P (updateMeta s id m mg).1.l1a := by
  unfold updateMeta
  split <;> exact h

theorem closed_foldl_invalidate_docs (docs : List (Nat × Vec × Meta × Bool)) (l : L1a D)
    (h : P l) : P (docs.foldl (fun l p => l.invalidate p.1) l) := by
  induction docs generalizing l with
  | nil => exact h
  | cons i rest ih => exact ih _ (hc.invalidate l i.1 h)

theorem closed_bulkLoad (s : TState D) (docs : List (Nat × Vec × Meta × Bool)) (h : P s.l1a) :
    P (bulkLoad s docs).1.l1a := by
  unfold bulkLoad
  exact closed_foldl_invalidate_docs hc docs _ h

theorem closed_audit (s : TState D) (h : P s.l1a) : P (audit digest s).1.l1a := by
  unfold audit
  split
  · exact h
  · exact closed_foldl_invalidate hc _ _ h

/-- Every operation keeps any `get/insert/invalidate`-closed predicate on the document cache. -/
theorem closed_applyOp (s : TState D) (op : TOp D) (h : P s.l1a) :
    P (applyOp digest s op).l1a := by
  cases op with
  | insert id v m a => exact closed_insert digest hc s id v m a h
  | delete id => exact closed_delete hc s id h
  | batchDelete ids => exact closed_batchDelete hc s ids h
  | updateMeta id m mg => exact closed_updateMeta hc s id m mg h
  | bulkLoad docs => exact closed_bulkLoad hc s docs h
  | flush f => exact closed_flush digest hc s f h
  | audit => exact closed_audit digest hc s h
  | query id a => exact closed_query digest hc s id a h
  | docWithMeta id => exact closed_docWithMeta digest hc s id h
  | embAware id => exact closed_embAware digest hc s id h
  | bulkQuery ids => exact closed_bulkQuery digest hc s ids h
  | pokeCache id v t => exact hc.insert _ _ _ h
  | pokeHot id v m t => exact h

theorem closed_applyOps (s : TState D) (ops : List (TOp D)) (h : P s.l1a) :
    P (applyOps digest s ops).l1a := by
  unfold applyOps
  induction ops generalizing s with
  | nil => exact h
  | cons op rest ih => exact ih _ (closed_applyOp digest hc s op h)

end
end KyroModel
