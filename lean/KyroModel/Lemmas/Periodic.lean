/-
Invariant of the periodic-fsync protocol (with the outgoing segment synced) and the shape of every
power-loss outcome.
-/
import KyroModel.Persist.Periodic

namespace KyroModel.Periodic
open KyroModel

def total (gs : List Seg) : Nat := (gs.map (·.len)).sum

@[simp] theorem total_nil : total [] = 0 := rfl
@[simp] theorem total_cons (g : Seg) (gs : List Seg) : total (g :: gs) = g.len + total gs := by
  simp [total]
theorem total_append (a b : List Seg) : total (a ++ b) = total a + total b := by
  simp [total, List.sum_append]
theorem total_map_fullSync (gs : List Seg) : total (gs.map fullSync) = total gs := by
  induction gs with
  | nil => rfl
  | cons g gs ih => simp [fullSync, ih]

structure Inv (s : St) : Prop where
  oldSynced : ∀ g ∈ s.old, g.synced = g.len
  actOk : s.act.synced ≤ s.act.len
  lens : total s.old + s.act.len = s.log.length
  covered : s.coveredAtTick ≤ total s.old + s.act.synced
  late : ∀ i (h : i < s.log.length), s.coveredAtTick ≤ i → s.lastTick ≤ (s.log[i]).1
  tickPast : s.lastTick ≤ s.now

theorem inv_init (iv : Nat) (rot : Bool) : Inv { iv := iv, rot := rot, fix := true } where
  oldSynced := fun _ h => nomatch h
  actOk := Nat.le_refl _
  lens := rfl
  covered := Nat.le_refl _
  late := fun i h => absurd h (Nat.not_lt_zero i)
  tickPast := Nat.le_refl _

theorem inv_retire {s : St} (hf : s.fix = true) (h : Inv s) : Inv (retire s) := by
  unfold retire
  simp only [hf, if_true]
  refine ⟨?_, Nat.le_refl _, ?_, ?_, h.late, h.tickPast⟩
  · intro g hg
    rcases List.mem_append.mp hg with hg | hg
    · obtain ⟨g0, _, rfl⟩ := List.mem_map.mp hg
      rfl
    · simp only [List.mem_singleton] at hg
      subst hg; rfl
  · show total (s.old.map fullSync ++ [fullSync s.act]) + 0 = s.log.length
    rw [total_append, total_map_fullSync]
    simp only [total_cons, total_nil, fullSync]
    have := h.lens
    omega
  · show s.coveredAtTick ≤ total (s.old.map fullSync ++ [fullSync s.act]) + 0
    rw [total_append, total_map_fullSync]
    simp only [total_cons, total_nil, fullSync]
    have := h.covered
    have := h.actOk
    omega

theorem inv_append {s : St} (hf : s.fix = true) (h : Inv s) (w : WOp) : Inv (append s w) := by
  unfold append
  simp only
  -- the state after the write and the writer's own interval check, before a rotation
  have key : ∀ (a : Seg), a.len = s.act.len + 1 → s.act.synced ≤ a.synced → a.synced ≤ a.len →
      Inv { s with act := a, log := s.log ++ [(s.now, w)] } := by
    intro a hl hs hle
    refine ⟨h.oldSynced, hle, ?_, ?_, ?_, h.tickPast⟩
    · show total s.old + a.len = (s.log ++ [(s.now, w)]).length
      have := h.lens
      simp only [List.length_append, List.length_singleton]
      omega
    · show s.coveredAtTick ≤ total s.old + a.synced
      have := h.covered
      omega
    · intro i hi hc
      show s.lastTick ≤ ((s.log ++ [(s.now, w)])[i]).1
      by_cases hlt : i < s.log.length
      · rw [List.getElem_append_left hlt]
        exact h.late i hlt hc
      · have hi' : i < s.log.length + 1 := by simpa using hi
        have : i = s.log.length := by omega
        subst this
        simp only [List.getElem_append_right (Nat.le_refl _), Nat.sub_self, List.getElem_cons_zero]
        exact h.tickPast
  have hI : Inv { s with
      act := (if s.iv = 0 ∨ s.iv ≤ s.now - ({ s.act with len := s.act.len + 1 } : Seg).lastFsync then
        { ({ s.act with len := s.act.len + 1 } : Seg) with synced := s.act.len + 1, lastFsync := s.now }
        else { s.act with len := s.act.len + 1 }),
      log := s.log ++ [(s.now, w)] } := by
    apply key
    · split <;> rfl
    · split
      · have := h.actOk; simp only; omega
      · exact Nat.le_refl _
    · split
      · exact Nat.le_refl _
      · have := h.actOk; simp only; omega
  split
  · exact inv_retire hf hI
  · exact hI

theorem inv_step {s : St} (hf : s.fix = true) (h : Inv s) (e : Ev) : Inv (step s e) := by
  cases e with
  | ins id x => exact inv_append hf h _
  | del id =>
    simp only [step]
    split
    · exact inv_append hf h _
    · exact h
  | advance ms =>
    exact ⟨h.oldSynced, h.actOk, h.lens, h.covered, h.late, Nat.le_trans h.tickPast (Nat.le_add_right _ _)⟩
  | tick =>
    refine ⟨h.oldSynced, Nat.le_refl _, h.lens, ?_, ?_, Nat.le_refl _⟩
    · show s.log.length ≤ total s.old + s.act.len
      rw [h.lens]; exact Nat.le_refl _
    · intro i hi hc
      exact absurd hi (Nat.not_lt.mpr hc)
  | restart => exact inv_retire hf h

theorem fix_step (s : St) (e : Ev) : (step s e).fix = s.fix := by
  cases e <;> simp only [step, append, retire] <;> repeat (first | split | rfl)

theorem inv_run (evs : List Ev) : ∀ {s : St}, s.fix = true → Inv s → Inv (run s evs) ∧ (run s evs).fix = true := by
  induction evs with
  | nil => intro s hf h; exact ⟨h, hf⟩
  | cons e rest ih =>
    intro s hf h
    exact ih ((fix_step s e).trans hf) (inv_step hf h e)

/-! ### what a power failure keeps -/

theorem kept_prefix (old : List Seg) (hold : ∀ g ∈ old, g.synced = g.len) (a : Seg) :
    ∀ (ks : List Nat) (L : List WOp), Admissible (old ++ [a]) ks →
      ∃ k, a.synced ≤ k ∧ k ≤ a.len ∧ kept (old ++ [a]) ks L = L.take (total old + k) := by
  induction old with
  | nil =>
    intro ks L hA
    match ks, hA with
    | [k], hA =>
      simp only [List.nil_append, Admissible] at hA
      refine ⟨k, hA.1, hA.2.1, ?_⟩
      simp only [List.nil_append, kept, List.append_nil, total_nil, Nat.zero_add, List.take_take]
      rw [Nat.min_eq_left hA.2.1]
    | k :: _ :: _, hA => simp [Admissible] at hA
  | cons g gs ih =>
    intro ks L hA
    match ks, hA with
    | [], hA => simp [Admissible] at hA
    | k0 :: ks', hA =>
      simp only [List.cons_append, Admissible] at hA
      have hg := hold g (List.mem_cons_self ..)
      have hk0 : k0 = g.len := by omega
      obtain ⟨k, h1, h2, h3⟩ := ih (fun x hx => hold x (List.mem_cons_of_mem _ hx)) ks' (L.drop g.len) hA.2.2
      refine ⟨k, h1, h2, ?_⟩
      simp only [List.cons_append, kept, h3, hk0, List.take_take, Nat.min_self, total_cons]
      rw [Nat.add_assoc]
      exact List.take_add.symm

theorem mem_choices (gs : List Seg) : ∀ (ks : List Nat), ks ∈ choices gs ↔ Admissible gs ks := by
  induction gs with
  | nil =>
    intro ks
    cases ks <;> simp [choices, Admissible]
  | cons g gs ih =>
    intro ks
    cases ks with
    | nil => simp [choices, Admissible]
    | cons k ks' =>
      simp only [choices, List.mem_flatMap, List.mem_filter, List.mem_range, decide_eq_true_eq, List.mem_map,
        Admissible]
      constructor
      · rintro ⟨k', ⟨hk1, hk2⟩, ks'', hks, heq⟩
        cases heq
        exact ⟨hk2, by omega, (ih ks').mp hks⟩
      · rintro ⟨h1, h2, h3⟩
        exact ⟨k, ⟨by omega, h1⟩, ks', (ih ks').mpr h3, rfl⟩

end KyroModel.Periodic
