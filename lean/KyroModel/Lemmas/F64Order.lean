/-
`OrderedF64::from_f64` is strictly monotone for IEEE `<` and injective modulo `==` on non-NaN
values — the fact that makes a `BTreeMap<OrderedF64, _>` range scan equal the float comparison
`metadata_filter::matches_range` performs.
-/
import KyroModel.Store.Filter

namespace KyroModel

theorem orderedKey_lt (a b : Nat) (ha : a < 2 ^ 64) (hb : b < 2 ^ 64) :
    f64lt a b = true ↔ orderedKey a < orderedKey b := by
  unfold f64lt orderedKey
  simp only [beq_iff_eq, Bool.and_eq_true]
  repeat' split
  all_goals (try simp)
  all_goals omega

theorem orderedKey_eq (a b : Nat) (ha : a < 2 ^ 64) (hb : b < 2 ^ 64) :
    f64eq a b = true ↔ orderedKey a = orderedKey b := by
  unfold f64eq orderedKey
  simp only [beq_iff_eq, Bool.and_eq_true, Bool.or_eq_true]
  repeat' split
  all_goals (try simp)
  all_goals omega

end KyroModel
