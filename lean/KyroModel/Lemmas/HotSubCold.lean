/-
`HotSubCold`: every mirrored document has a canonical record.  It is an invariant of every
history in which the harness does not plant a mirror for a non-canonical id, and under it
drains never write: the canonical store changes only through the write operations, exactly as
the map specification says.
-/
import KyroModel.Lemmas.Canonical

namespace KyroModel
section
variable {D : Type} [DecidableEq D] (digest : Vec → D)

def HotSubCold (s : TState D) : Prop := ∀ id, id ∈ akeys s.hot → id ∈ akeys s.cold

/-- What the canonical store must become (map semantics of the write API). -/
def specStep (c : Cold) : TOp D → Cold
  | .insert id v m true => c.insert id v m
  | .delete id => (c.delete id).1
  | .batchDelete ids => (dedupSorted ids).foldl (fun c id => (Cold.delete c id).1) c
  | .updateMeta id m mg => (c.updateMeta id m mg).1
  | .bulkLoad docs => (bulkLoadCold c docs).1
  | _ => c

/-- Operations that cannot create a mirror-only entry. -/
def TOp.admissible (s : TState D) : TOp D → Prop
  | .pokeHot id _ _ _ => id ∈ akeys s.cold
  | _ => True

theorem mem_akeys_foldl_aerase {α : Type} (ids : List Nat) (j : Nat) (l : List (Nat × α))
    (h : j ∈ akeys (ids.foldl (fun h id => aerase id h) l)) : j ∈ akeys l ∧ j ∉ ids := by
  induction ids generalizing l with
  | nil => exact ⟨h, by simp⟩
  | cons i rest ih =>
    rw [List.foldl_cons] at h
    have := ih _ h
    have h2 := mem_akeys_aerase i j l this.1
    exact ⟨h2.1, by simp only [List.mem_cons, not_or]; exact ⟨h2.2, this.2⟩⟩

theorem cold_delete_keys (c : Cold) (id j : Nat) (h : j ∈ akeys c) (hne : j ≠ id) :
    j ∈ akeys (Cold.delete c id).1 := by
  unfold Cold.delete
  split
  · exact mem_akeys_aerase_of id j c h hne
  · exact h

theorem cold_foldl_delete_keys (ids : List Nat) (c : Cold) (j : Nat) (h : j ∈ akeys c)
    (hn : j ∉ ids) : j ∈ akeys (ids.foldl (fun c id => (Cold.delete c id).1) c) := by
  induction ids generalizing c with
  | nil => exact h
  | cons i rest ih =>
    rw [List.foldl_cons]
    simp only [List.mem_cons, not_or] at hn
    exact ih _ (cold_delete_keys c i j h hn.1) hn.2

theorem cold_insert_keys (c : Cold) (id j : Nat) (v : Vec) (m : Meta) :
    j ∈ akeys (c.insert id v m) ↔ j = id ∨ j ∈ akeys c := by
  unfold Cold.insert
  exact mem_akeys_aset id j _ c

theorem bulkLoadCold_keys (docs : List (Nat × Vec × Meta × Bool)) (c : Cold) (n : Nat) (j : Nat)
    (h : j ∈ akeys c) :
    j ∈ akeys (docs.foldl
      (fun (acc : Cold × Nat) p =>
        if p.2.2.2 then (acc.1.insert p.1 p.2.1 p.2.2.1, acc.2 + 1) else acc) (c, n)).1 := by
  induction docs generalizing c n with
  | nil => exact h
  | cons p rest ih =>
    rw [List.foldl_cons]
    split
    · exact ih _ _ ((cold_insert_keys c p.1 j _ _).mpr (Or.inr h))
    · exact ih _ _ h

theorem cold_updateMeta_keys (c : Cold) (id j : Nat) (m : Meta) (mg : Bool) (h : j ∈ akeys c) :
    j ∈ akeys (c.updateMeta id m mg).1 := by
  unfold Cold.updateMeta
  split
  · exact (mem_akeys_aset id j _ c).mpr (Or.inr h)
  · exact h

/-- a state whose mirror is a subset of `s`'s mirror and whose canonical store is `s`'s -/
def Shrinks (s s' : TState D) : Prop :=
  (∀ id, id ∈ akeys s'.hot → id ∈ akeys s.hot) ∧ s'.cold = s.cold

theorem Shrinks.refl (s : TState D) : Shrinks s s := ⟨fun _ h => h, rfl⟩
theorem Shrinks.trans {a b c : TState D} (h1 : Shrinks a b) (h2 : Shrinks b c) : Shrinks a c :=
  ⟨fun id h => h1.1 id (h2.1 id h), h2.2.trans h1.2⟩

theorem Shrinks.hsc {s s' : TState D} (h : Shrinks s s') (hs : HotSubCold s) : HotSubCold s' := by
  intro id hid
  rw [h.2]
  exact hs id (h.1 id hid)

theorem shrinks_discardHot (s : TState D) (id : Nat) : Shrinks s (discardHot s id) :=
  ⟨fun j h => (mem_akeys_aerase id j s.hot h).1, rfl⟩

theorem shrinks_admitTo (s : TState D) (a : Bool) (id : Nat) (v : Vec) (t : Token D) :
    Shrinks s (admitTo s a id v t) := by
  unfold admitTo; split <;> exact ⟨fun _ h => h, rfl⟩

theorem shrinks_hotLeg (s : TState D) (id : Nat) : Shrinks s (hotLeg digest s id).1 := by
  unfold hotLeg
  split
  · split
    · exact Shrinks.refl s
    · exact shrinks_discardHot s id
    · exact shrinks_discardHot s id
    · exact Shrinks.refl s
  · exact Shrinks.refl s

theorem shrinks_queryL1 (s : TState D) (id : Nat) : Shrinks s (queryL1 digest s id).1 := by
  unfold queryL1
  simp only
  split
  · split <;> exact ⟨fun _ h => h, rfl⟩
  · exact ⟨fun _ h => h, rfl⟩

theorem shrinks_queryL2 (s : TState D) (id : Nat) (a : Bool) :
    Shrinks s (queryL2 digest s id a).1 := by
  unfold queryL2
  split
  · split
    · exact shrinks_admitTo ..
    · exact shrinks_discardHot s id
    · exact shrinks_discardHot s id
    · exact Shrinks.refl s
  · exact Shrinks.refl s

theorem shrinks_queryL3 (s : TState D) (id : Nat) (a : Bool) :
    Shrinks s (queryL3 digest s id a).1 := by
  unfold queryL3
  split
  · exact shrinks_admitTo ..
  · exact Shrinks.refl s

theorem shrinks_query (s : TState D) (id : Nat) (a : Bool) : Shrinks s (query digest s id a).1 := by
  have h1 := shrinks_queryL1 digest s id
  unfold query
  generalize queryL1 digest s id = r1 at h1 ⊢
  obtain ⟨s1, o1⟩ := r1
  cases o1 with
  | some v => exact h1
  | none =>
    simp only at h1 ⊢
    have h2 := shrinks_queryL2 digest s1 id a
    generalize queryL2 digest s1 id a = r2 at h2 ⊢
    obtain ⟨s2, o2⟩ := r2
    cases o2 with
    | some v => exact h1.trans h2
    | none =>
      simp only at h2 ⊢
      have h3 := shrinks_queryL3 digest s2 id a
      generalize queryL3 digest s2 id a = r3 at h3 ⊢
      obtain ⟨s3, o3⟩ := r3
      cases o3 <;> exact (h1.trans h2).trans h3

theorem shrinks_docWithMeta (s : TState D) (id : Nat) : Shrinks s (docWithMeta digest s id).1 := by
  unfold docWithMeta
  split
  · have h1 := shrinks_hotLeg digest s id
    generalize hotLeg digest s id = r at h1 ⊢
    obtain ⟨s1, o⟩ := r
    cases o with
    | some v => exact h1
    | none => simp only at h1 ⊢; split <;> exact h1
  · exact Shrinks.refl s

theorem shrinks_peekLeg (s : TState D) (id : Nat) : Shrinks s (peekLeg digest s id).1 := by
  unfold peekLeg
  split
  · split <;> exact ⟨fun _ h => h, rfl⟩
  · exact Shrinks.refl s

theorem shrinks_embAware (s : TState D) (id : Nat) : Shrinks s (embAware digest s id).1 := by
  have h1 := shrinks_peekLeg digest s id
  unfold embAware
  generalize peekLeg digest s id = r1 at h1 ⊢
  obtain ⟨s1, o1⟩ := r1
  cases o1 with
  | some v => exact h1
  | none =>
    simp only at h1 ⊢
    have h2 := shrinks_hotLeg digest s1 id
    generalize hotLeg digest s1 id = r2 at h2 ⊢
    obtain ⟨s2, o2⟩ := r2
    cases o2 <;> exact h1.trans h2

theorem shrinks_bulkOne (s : TState D) (id : Nat) : Shrinks s (bulkOne digest s id).1 := by
  unfold bulkOne
  split
  · split
    · split <;> exact Shrinks.refl s
    · exact shrinks_discardHot s id
    · exact shrinks_discardHot s id
    · exact Shrinks.refl s
  · exact Shrinks.refl s

theorem shrinks_bulkPass (ids : List Nat) (s : TState D) : Shrinks s (bulkPass digest s ids).1 := by
  induction ids generalizing s with
  | nil => exact Shrinks.refl s
  | cons i rest ih =>
    unfold bulkPass
    have h1 := shrinks_bulkOne digest s i
    generalize bulkOne digest s i = r at h1 ⊢
    obtain ⟨s1, o⟩ := r
    simp only at h1 ⊢
    have h2 := ih s1
    generalize bulkPass digest s1 rest = r2 at h2 ⊢
    obtain ⟨s2, rs⟩ := r2
    exact h1.trans h2

theorem shrinks_bulkQuery (s : TState D) (ids : List Nat) : Shrinks s (bulkQuery digest s ids).1 := by
  unfold bulkQuery
  have := shrinks_bulkPass digest ids s
  generalize bulkPass digest s ids = r at this ⊢
  obtain ⟨s1, fp⟩ := r
  exact this

theorem shrinks_audit (s : TState D) : Shrinks s (audit digest s).1 := by
  unfold audit
  split
  · exact Shrinks.refl s
  · exact ⟨fun j h => (mem_akeys_foldl_aerase _ j s.hot h).1, rfl⟩

/-- Reconciling documents that all have a canonical record: nothing fails, nothing is written. -/
theorem reconcile_fold_canonical (docs : List (Nat × HotDoc D))
    (acc : TState D × List (Nat × HotDoc D) × Nat × Bool)
    (hdocs : ∀ p ∈ docs, p.1 ∈ akeys acc.1.cold) :
    let r := docs.foldl
      (fun (acc : TState D × List (Nat × HotDoc D) × Nat × Bool) p =>
        let (st, failed, ok, clr) := acc
        let (id, h) := p
        match alookup id st.cold with
        | some d =>
          let tokDiv := coldToken digest d ≠ h.tok
          let embDiv := d.vec ≠ h.vec
          let mdDiv := d.md ≠ h.md
          let st1 := if embDiv then { st with l1a := st.l1a.invalidate id } else st
          (st1, failed, ok + 1, clr || decide tokDiv || decide embDiv || decide mdDiv)
        | none =>
          if h.vec.length = st.cfg.dim then
            ({ st with cold := st.cold.insert id h.vec h.md }, failed, ok + 1, true)
          else
            (st, failed ++ [(id, h)], ok, clr)) acc
    r.1.cold = acc.1.cold ∧ r.2.1 = acc.2.1 := by
  induction docs generalizing acc with
  | nil => simp
  | cons p rest ih =>
    simp only [List.foldl_cons]
    obtain ⟨st, failed, ok, clr⟩ := acc
    obtain ⟨id, hd⟩ := p
    have hmem : id ∈ akeys st.cold := hdocs (id, hd) (List.mem_cons_self ..)
    obtain ⟨d, hl⟩ := exists_alookup_of_mem id st.cold hmem
    simp only [hl]
    have hrest : ∀ p ∈ rest, p.1 ∈ akeys st.cold := fun p hp => hdocs p (List.mem_cons_of_mem _ hp)
    have := ih ((if d.vec ≠ hd.vec then { st with l1a := st.l1a.invalidate id } else st),
      failed, ok + 1, clr || decide (coldToken digest d ≠ hd.tok) || decide (d.vec ≠ hd.vec) || decide (d.md ≠ hd.md))
      (by intro p hp; simp only; split <;> exact hrest p hp)
    simp only at this
    refine ⟨?_, this.2⟩
    rw [this.1]; split <;> rfl

theorem drain_hsc (s : TState D) (hs : HotSubCold s) :
    (drain digest s).1.cold = s.cold ∧ (drain digest s).1.hot = [] ∧ (drain digest s).2.isSome := by
  unfold drain
  split
  · rename_i h0
    refine ⟨rfl, ?_, rfl⟩
    exact List.eq_nil_of_length_eq_zero h0
  · rename_i hne
    unfold drainNonEmpty reconcile
    have := reconcile_fold_canonical digest s.hot ({ s with hot := [] }, [], 0, false)
      (by intro p hp; exact hs p.1 (by simp only [akeys, List.mem_map]; exact ⟨p, hp, rfl⟩))
    simp only at this
    generalize (s.hot.foldl _ (({ s with hot := [] } : TState D), [], 0, false)) = r at this ⊢
    obtain ⟨s1, failed, ok, clr⟩ := r
    simp only at this
    obtain ⟨hc, hf⟩ := this
    subst hf
    simp only [List.length_nil, ne_eq, not_true_eq_false, false_and, ↓reduceIte]
    split <;> exact ⟨hc, rfl, rfl⟩

theorem flush_hsc (s : TState D) (f : Bool) (hs : HotSubCold s) :
    (flush digest s f).1.cold = s.cold ∧ HotSubCold (flush digest s f).1 := by
  unfold flush
  split
  · exact ⟨rfl, hs⟩
  · have := drain_hsc digest s hs
    refine ⟨this.1, ?_⟩
    intro id hid
    rw [this.2.1] at hid
    simp [akeys] at hid

theorem insertCore_hsc (s : TState D) (id : Nat) (v : Vec) (m : Meta) (a : Bool)
    (hs : HotSubCold s) :
    (insertCore digest s id v m a).1.cold = (if a then s.cold.insert id v m else s.cold) ∧
    HotSubCold (insertCore digest s id v m a).1 := by
  unfold insertCore
  cases a with
  | false => exact ⟨rfl, hs⟩
  | true =>
    simp only [Bool.not_true, Bool.false_eq_true, ↓reduceIte]
    split
    · refine ⟨rfl, ?_⟩
      intro j hj
      simp only at hj ⊢
      rw [cold_insert_keys]
      rcases (mem_akeys_aset id j _ s.hot).mp hj with h | h
      · exact Or.inl h
      · exact Or.inr (hs j h)
    · refine ⟨rfl, ?_⟩
      intro j hj
      simp only at hj ⊢
      rw [cold_insert_keys]
      exact Or.inr (hs j hj)

theorem insert_hsc (s : TState D) (id : Nat) (v : Vec) (m : Meta) (a : Bool) (hs : HotSubCold s) :
    (insert digest s id v m a).1.cold = (if a then s.cold.insert id v m else s.cold) ∧
    HotSubCold (insert digest s id v m a).1 ∧
    ((insert digest s id v m a).2 = .ok ↔ a = true) := by
  have core_out : ∀ s' : TState D, ((insertCore digest s' id v m a).2 = .ok ↔ a = true) := by
    intro s'
    unfold insertCore
    cases a with
    | false => simp
    | true =>
      simp only [Bool.not_true, Bool.false_eq_true, ↓reduceIte]
      split
      · simp
      · rename_i hn
        exfalso
        unfold Cold.insert at hn
        simp at hn
  unfold insert
  split
  · have hd := drain_hsc digest s hs
    generalize drain digest s = r at hd ⊢
    obtain ⟨s1, o⟩ := r
    cases o with
    | none => simp at hd
    | some n =>
      simp only at hd ⊢
      have hs1 : HotSubCold s1 := by
        intro j hj; rw [hd.2.1] at hj; simp [akeys] at hj
      have := insertCore_hsc digest s1 id v m a hs1
      rw [hd.1] at this
      exact ⟨this.1, this.2, core_out s1⟩
  · have := insertCore_hsc digest s id v m a hs
    exact ⟨this.1, this.2, core_out s⟩

theorem delete_hsc (s : TState D) (id : Nat) (hs : HotSubCold s) :
    (delete s id).1.cold = (s.cold.delete id).1 ∧ HotSubCold (delete s id).1 := by
  have key : ∀ j, j ∈ akeys (aerase id s.hot) → j ∈ akeys (s.cold.delete id).1 := by
    intro j hj
    have := mem_akeys_aerase id j s.hot hj
    exact cold_delete_keys s.cold id j (hs j this.1) this.2
  unfold delete
  split <;> exact ⟨rfl, key⟩

theorem foldl_cold_delete_absent (ids : List Nat) (c : Cold)
    (h : ∀ id ∈ ids, alookup id c = none) :
    ids.foldl (fun c id => (Cold.delete c id).1) c = c := by
  induction ids generalizing c with
  | nil => rfl
  | cons i rest ih =>
    rw [List.foldl_cons]
    have hi := h i (List.mem_cons_self ..)
    have : (Cold.delete c i).1 = c := by unfold Cold.delete; rw [hi]
    rw [this]
    exact ih c (fun j hj => h j (List.mem_cons_of_mem _ hj))

theorem batchDelete_hsc (s : TState D) (ids : List Nat) (hs : HotSubCold s) :
    (batchDelete s ids).1.cold = (dedupSorted ids).foldl (fun c id => (Cold.delete c id).1) s.cold ∧
    HotSubCold (batchDelete s ids).1 := by
  unfold batchDelete
  split
  · rename_i h0
    refine ⟨?_, hs⟩
    symm
    apply foldl_cold_delete_absent
    intro id hid
    unfold presentCount at h0
    have := List.length_eq_zero_iff.mp h0
    have hf := List.filter_eq_nil_iff.mp this id hid
    simp only [Bool.or_eq_true, not_or, Bool.not_eq_true, Option.isSome_eq_false_iff,
      Option.isNone_iff_eq_none] at hf
    exact hf.2
  · refine ⟨rfl, ?_⟩
    intro j hj
    simp only at hj ⊢
    have := mem_akeys_foldl_aerase _ j s.hot hj
    exact cold_foldl_delete_keys _ s.cold j (hs j this.1) this.2

theorem updateMeta_hsc (s : TState D) (id : Nat) (m : Meta) (mg : Bool) (hs : HotSubCold s) :
    (updateMeta s id m mg).1.cold = (s.cold.updateMeta id m mg).1 ∧
    HotSubCold (updateMeta s id m mg).1 := by
  unfold updateMeta
  split
  · rename_i hex
    refine ⟨?_, hs⟩
    unfold Cold.updateMeta at hex ⊢
    split at hex
    · simp at hex
    · rfl
  · refine ⟨rfl, ?_⟩
    intro j hj
    simp only at hj ⊢
    apply cold_updateMeta_keys
    apply hs
    unfold hotUpdateMeta at hj
    split at hj
    · rename_i d hl
      rcases (mem_akeys_aset id j _ s.hot).mp hj with h | h
      · rw [h]; exact mem_akeys_of_alookup id d s.hot hl
      · exact h
    · exact hj

theorem bulkLoad_hsc (s : TState D) (docs : List (Nat × Vec × Meta × Bool)) (hs : HotSubCold s) :
    (bulkLoad s docs).1.cold = (bulkLoadCold s.cold docs).1 ∧ HotSubCold (bulkLoad s docs).1 := by
  refine ⟨rfl, ?_⟩
  intro j hj
  exact bulkLoadCold_keys docs s.cold 0 j (hs j hj)

/-- **Writes refine the map specification, drains/audits/reads write nothing.** -/
theorem applyOp_refines (s : TState D) (op : TOp D) (hs : HotSubCold s) (hadm : op.admissible s) :
    (applyOp digest s op).cold = specStep s.cold op ∧ HotSubCold (applyOp digest s op) := by
  have lift : ∀ s', Shrinks s s' → s'.cold = s.cold ∧ HotSubCold s' :=
    fun s' h => ⟨h.2, h.hsc hs⟩
  cases op with
  | insert id v m a =>
    have := insert_hsc digest s id v m a hs
    refine ⟨?_, this.2.1⟩
    simp only [applyOp, specStep]
    rw [this.1]
    cases a <;> rfl
  | delete id => exact delete_hsc s id hs
  | batchDelete ids => exact batchDelete_hsc s ids hs
  | updateMeta id m mg => exact updateMeta_hsc s id m mg hs
  | bulkLoad docs => exact bulkLoad_hsc s docs hs
  | flush f => exact flush_hsc digest s f hs
  | audit => exact lift _ (shrinks_audit digest s)
  | query id a => exact lift _ (shrinks_query digest s id a)
  | docWithMeta id => exact lift _ (shrinks_docWithMeta digest s id)
  | embAware id => exact lift _ (shrinks_embAware digest s id)
  | bulkQuery ids => exact lift _ (shrinks_bulkQuery digest s ids)
  | pokeCache id v t => exact ⟨rfl, hs⟩
  | pokeHot id v m t =>
    refine ⟨rfl, ?_⟩
    intro j hj
    simp only [applyOp, pokeHot] at hj ⊢
    rcases (mem_akeys_aset id j _ s.hot).mp hj with h | h
    · rw [h]; exact hadm
    · exact hs j h

end
end KyroModel
