/-
Strict recovery under single faults: which directories `recover` refuses, and which parts of
the directory it does not look at.
-/
import KyroModel.Persist.Damage
import KyroModel.Lemmas.DiskInv

namespace KyroModel

/-- one step of the segment loop of `recover` -/
def segStep (d : Disk) (sq : Nat) (acc : Except RecErr (Docs × Nat)) (n : Nat) :
    Except RecErr (Docs × Nat) :=
  match acc with
  | .error e => .error e
  | .ok (docs, mx) =>
    match alookup n d.wals with
    | none => .error (.missingSegment n)
    | some w =>
      if w.badMagic then .error (.badMagic n)
      else if w.corrupted > 0 then .error (.corruptFrames n)
      else .ok (replay docs sq w.entries, maxSeq mx w.entries)

/-- where recovery starts from: the snapshot stage -/
def snapStage (d : Disk) (m : Manifest) : Except RecErr (Docs × Nat) :=
  match m.snap with
  | none => .ok ([], 0)
  | some n =>
    match loadSnapshot d n with
    | some s => .ok (s.docs, s.lastSeq)
    | none => .error .snapshotUnreadable

theorem recover_unfold (d : Disk) (m : Manifest) (hm : d.manifest = some m) :
    recover d =
      match snapStage d m with
      | .error e => .error e
      | .ok (base, sq) => m.segs.foldl (segStep d sq) (.ok (base, sq)) := by
  unfold recover snapStage
  simp only [hm]
  rfl

theorem fold_error (d : Disk) (sq : Nat) (segs : List Nat) (e : RecErr) :
    segs.foldl (segStep d sq) (.error e) = .error e := by
  induction segs with
  | nil => rfl
  | cons n rest ih => simpa [List.foldl_cons, segStep] using ih

/-- a listed segment the reader refuses -/
def BadSeg (d : Disk) (n : Nat) : Prop :=
  alookup n d.wals = none ∨ ∃ w, alookup n d.wals = some w ∧ (w.badMagic = true ∨ w.corrupted > 0)

theorem segStep_bad (d : Disk) (sq : Nat) (acc : Except RecErr (Docs × Nat)) (n : Nat)
    (h : BadSeg d n) : ∃ e, segStep d sq acc n = .error e := by
  cases acc with
  | error e => exact ⟨e, rfl⟩
  | ok p =>
    obtain ⟨docs, mx⟩ := p
    rcases h with h | ⟨w, hw, hb | hc⟩
    · exact ⟨.missingSegment n, by simp [segStep, h]⟩
    · exact ⟨.badMagic n, by simp [segStep, hw, hb]⟩
    · by_cases hb : w.badMagic = true
      · exact ⟨.badMagic n, by simp [segStep, hw, hb]⟩
      · exact ⟨.corruptFrames n, by simp [segStep, hw, hb, hc]⟩

theorem fold_bad (d : Disk) (sq : Nat) (segs : List Nat) (n : Nat) (hn : n ∈ segs) (h : BadSeg d n)
    (acc : Except RecErr (Docs × Nat)) : ∃ e, segs.foldl (segStep d sq) acc = .error e := by
  induction segs generalizing acc with
  | nil => cases hn
  | cons k rest ih =>
    simp only [List.foldl_cons]
    rcases List.mem_cons.mp hn with rfl | hr
    · obtain ⟨e, he⟩ := segStep_bad d sq acc n h
      exact ⟨e, by rw [he, fold_error]⟩
    · exact ih hr _

/-- **a directory with a refused listed segment does not start** -/
theorem recover_bad_seg (d : Disk) (m : Manifest) (hm : d.manifest = some m) (n : Nat)
    (hn : n ∈ m.segs) (h : BadSeg d n) : ∃ e, recover d = .error e := by
  rw [recover_unfold d m hm]
  cases snapStage d m with
  | error e => exact ⟨e, rfl⟩
  | ok p =>
    obtain ⟨base, sq⟩ := p
    exact fold_bad d sq m.segs n hn h _

theorem fold_congr (d d' : Disk) (sq : Nat) (segs : List Nat)
    (h : ∀ n ∈ segs, alookup n d'.wals = alookup n d.wals) (acc : Except RecErr (Docs × Nat)) :
    segs.foldl (segStep d' sq) acc = segs.foldl (segStep d sq) acc := by
  induction segs generalizing acc with
  | nil => rfl
  | cons n rest ih =>
    simp only [List.foldl_cons]
    have : segStep d' sq acc n = segStep d sq acc n := by
      unfold segStep
      rw [h n (List.mem_cons_self ..)]
    rw [this]
    exact ih (fun k hk => h k (List.mem_cons_of_mem _ hk)) _

/-- **recovery reads only the MANIFEST, the listed segments and the snapshot stage** -/
theorem recover_congr (d d' : Disk) (m : Manifest) (hm : d.manifest = some m)
    (hm' : d'.manifest = some m) (hw : ∀ n ∈ m.segs, alookup n d'.wals = alookup n d.wals)
    (hs : snapStage d' m = snapStage d m) : recover d' = recover d := by
  rw [recover_unfold d m hm, recover_unfold d' m hm', hs]
  cases snapStage d m with
  | error e => rfl
  | ok p =>
    obtain ⟨base, sq⟩ := p
    exact fold_congr d d' sq m.segs hw _

theorem loadSnapshot_primary (d : Disk) (n : Nat) (s : SnapFile)
    (h : alookup n d.snaps = some (some s)) : loadSnapshot d n = some s := by
  simp [loadSnapshot, h]

theorem snapStage_primary (d : Disk) (m : Manifest) (n : Nat) (s : SnapFile) (hn : m.snap = some n)
    (h : alookup n d.snaps = some (some s)) : snapStage d m = .ok (s.docs, s.lastSeq) := by
  simp [snapStage, hn, loadSnapshot_primary d n s h]

/-- no readable snapshot anywhere: the snapshot stage refuses -/
theorem loadSnapshot_none (d : Disk) (n : Nat) (h : ∀ k, (alookup k d.snaps).join = none) :
    loadSnapshot d n = none := by
  unfold loadSnapshot
  have hn := h n
  cases hl : alookup n d.snaps with
  | none =>
    simp only
    rw [List.head?_eq_none_iff, List.filterMap_eq_nil_iff]
    intro k _
    exact h k
  | some o =>
    cases o with
    | some s => simp [hl] at hn
    | none =>
      simp only
      rw [List.head?_eq_none_iff, List.filterMap_eq_nil_iff]
      intro k _
      exact h k

end KyroModel
