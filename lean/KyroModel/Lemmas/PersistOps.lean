/-
Every engine operation, action by action: each intermediate disk (= each kill point) satisfies
the disk invariant for the documents before the operation or for the documents after it.
-/
import KyroModel.Lemmas.DiskInv

namespace KyroModel

/-- `P` holds on the disk before each action of `as` and after the last one -/
def AllPrefixes (P : Disk → Prop) : Disk → List Action → Prop
  | d, [] => P d
  | d, a :: rest => P d ∧ AllPrefixes P (d.apply a) rest

theorem applyAll_append (d : Disk) (a b : List Action) :
    d.applyAll (a ++ b) = (d.applyAll a).applyAll b := by
  simp [Disk.applyAll, List.foldl_append]

theorem applyAll_cons (d : Disk) (a : Action) (rest : List Action) :
    d.applyAll (a :: rest) = (d.apply a).applyAll rest := rfl

theorem allPrefixes_mono {P Q : Disk → Prop} (h : ∀ d, P d → Q d) (d : Disk) (as : List Action)
    (hp : AllPrefixes P d as) : AllPrefixes Q d as := by
  induction as generalizing d with
  | nil => exact h d hp
  | cons a rest ih => exact ⟨h d hp.1, ih _ hp.2⟩

theorem allPrefixes_append {P : Disk → Prop} (d : Disk) (a b : List Action)
    (ha : AllPrefixes P d a) (hb : AllPrefixes P (d.applyAll a) b) : AllPrefixes P d (a ++ b) := by
  induction a generalizing d with
  | nil => exact hb
  | cons x rest ih => exact ⟨ha.1, ih _ ha.2 hb⟩

theorem allPrefixes_last {P : Disk → Prop} (d : Disk) (as : List Action)
    (h : AllPrefixes P d as) : P (d.applyAll as) := by
  induction as generalizing d with
  | nil => exact h
  | cons a rest ih => exact ih _ h.2

/-- in terms of prefixes of the action list -/
theorem allPrefixes_take {P : Disk → Prop} (d : Disk) (as : List Action)
    (h : AllPrefixes P d as) (k : Nat) : P (d.applyAll (as.take k)) := by
  induction as generalizing d k with
  | nil => simp only [List.take_nil, Disk.applyAll, List.foldl_nil]; exact h
  | cons a rest ih =>
    cases k with
    | zero => simpa [Disk.applyAll] using h.1
    | succ k => simpa [List.take_succ_cons, applyAll_cons] using ih _ h.2 k

/-- engine/disk frame: invariant for `docs`/`ns`, active segment listed last, fresh names -/
structure Frame (e : PEng) (d : Disk) (docs : Docs) (ns : Nat) : Prop where
  dinv : DInv d docs ns
  active : ∀ m, d.manifest = some m → ∃ init, m.segs = init ++ [e.active]
  walNames : ∀ n ∈ akeys d.wals, n < e.nextName
  snapNames : ∀ n ∈ akeys d.snaps, n < e.nextName

theorem Frame.listed_lt {e : PEng} {d : Disk} {docs : Docs} {ns : Nat} (f : Frame e d docs ns)
    (m : Manifest) (hm : d.manifest = some m) : ∀ n ∈ m.segs, n < e.nextName := by
  obtain ⟨m', hm', hs, _⟩ := f.dinv
  rw [hm] at hm'; cases hm'
  intro n hn
  obtain ⟨w, hw, _⟩ := hs n hn
  exact f.walNames n (mem_akeys_of_alookup n w _ hw)

theorem Frame.pointed_lt {e : PEng} {d : Disk} {docs : Docs} {ns : Nat} (f : Frame e d docs ns)
    (m : Manifest) (hm : d.manifest = some m) : ∀ n, m.snap = some n → n < e.nextName := by
  obtain ⟨m', hm', _, hp, _⟩ := f.dinv
  rw [hm] at hm'; cases hm'
  intro n hn
  obtain ⟨s, hs⟩ := hp n hn
  exact f.snapNames n (mem_akeys_of_alookup n _ _ hs)

/-! ### rotation -/

theorem rotate_spec (e : PEng) (d : Disk) (docs : Docs) (ns : Nat) (f : Frame e d docs ns) :
    Frame (rotate e d).1 (d.applyAll (rotate e d).2) docs ns ∧
    AllPrefixes (fun d' => DInv d' docs ns) d (rotate e d).2 ∧
    (rotate e d).1.store = e.store ∧ (rotate e d).1.nextSeq = e.nextSeq ∧
    (rotate e d).1.since = e.since ∧ (rotate e d).1.cfg = e.cfg ∧
    (rotate e d).1.degraded = e.degraded := by
  unfold rotate
  split
  · exact ⟨f, f.dinv, rfl, rfl, rfl, rfl, rfl⟩
  · cases hm : d.manifest with
    | none => exact ⟨f, f.dinv, rfl, rfl, rfl, rfl, rfl⟩
    | some m =>
      dsimp only
      have hfresh : e.nextName ∉ m.segs := fun h => Nat.lt_irrefl _ (f.listed_lt m hm _ h)
      have h1 : DInv (d.apply (.walCreate e.nextName)) docs ns :=
        dinv_walCreate d docs ns e.nextName f.dinv (fun m' hm' => by rw [hm] at hm'; cases hm'; exact hfresh)
      have hm1 : (d.apply (.walCreate e.nextName)).manifest = some m := hm
      have h2 : DInv ((d.apply (.walCreate e.nextName)).apply
          (.manifestPut { m with segs := m.segs ++ [e.nextName] })) docs ns :=
        dinv_addSeg _ docs ns e.nextName m h1 hm1 hfresh
          ⟨{entries := []}, by simp [Disk.apply], rfl, rfl, rfl⟩
      refine ⟨⟨h2, ?_, ?_, ?_⟩, ⟨f.dinv, h1, h2⟩, ?_⟩
      · intro m' hm'
        simp only [Disk.applyAll, List.foldl_cons, List.foldl_nil, Disk.apply, Option.some.injEq] at hm'
        subst hm'
        exact ⟨m.segs, rfl⟩
      · intro n hn
        simp only [Disk.applyAll, List.foldl_cons, List.foldl_nil, Disk.apply] at hn
        show n < e.nextName + 1
        rcases (mem_akeys_aset _ _ _ _).mp hn with h | h
        · omega
        · have := f.walNames n h; omega
      · intro n hn
        simp only [Disk.applyAll, List.foldl_cons, List.foldl_nil, Disk.apply] at hn
        show n < e.nextName + 1
        have := f.snapNames n hn; omega
      · simp

/-! ### logging one entry -/

theorem logEntry_spec (e : PEng) (d : Disk) (docs : Docs) (ns : Nat) (en : WEntry) (flen : Nat)
    (f : Frame e d docs ns) (hseq : en.seq = ns) :
    Frame (logEntry e d en flen).1 (d.applyAll (logEntry e d en flen).2) (docs.apply en) (ns + 1) ∧
    AllPrefixes (fun d' => DInv d' docs ns ∨ DInv d' (docs.apply en) (ns + 1)) d (logEntry e d en flen).2 ∧
    (logEntry e d en flen).1.store = e.store ∧ (logEntry e d en flen).1.nextSeq = e.nextSeq ∧
    (logEntry e d en flen).1.since = e.since ∧ (logEntry e d en flen).1.cfg = e.cfg ∧
    (logEntry e d en flen).1.degraded = e.degraded := by
  unfold logEntry
  simp only
  have h1 : DInv (d.apply (.walAppend e.active en)) (docs.apply en) (ns + 1) :=
    dinv_append d docs ns e.active en f.dinv hseq f.active
  have f1 : Frame { e with bytes := e.bytes + flen } (d.apply (.walAppend e.active en))
      (docs.apply en) (ns + 1) := by
    refine ⟨h1, ?_, ?_, ?_⟩
    · intro m hm
      have : d.manifest = some m := by
        simp only [Disk.apply] at hm; split at hm <;> exact hm
      exact f.active m this
    · intro n hn
      simp only [Disk.apply] at hn
      split at hn
      · rename_i w hw
        rcases (mem_akeys_aset _ _ _ _).mp hn with h | h
        · rw [h]; exact f.walNames _ (mem_akeys_of_alookup _ w _ hw)
        · exact f.walNames n h
      · exact f.walNames n hn
    · intro n hn
      have : n ∈ akeys d.snaps := by
        simp only [Disk.apply] at hn; split at hn <;> exact hn
      exact f.snapNames n this
  have hr := rotate_spec _ _ _ _ f1
  refine ⟨hr.1, ⟨Or.inl f.dinv, allPrefixes_mono (fun _ h => Or.inr h) _ _ hr.2.1⟩,
    hr.2.2.1, hr.2.2.2.1, hr.2.2.2.2.1, hr.2.2.2.2.2.1, hr.2.2.2.2.2.2⟩

/-! ### snapshot -/

theorem filter_keep_last (init : List Nat) (n : Nat) (keep : Nat → Bool) (hk : keep n = true) :
    (init ++ [n]).filter keep = init.filter keep ++ [n] := by
  simp [List.filter_append, hk]

theorem not_mem_dropLast_of_nodup (init : List Nat) (n : Nat) (h : (init ++ [n]).Nodup) :
    n ∉ (init ++ [n]).dropLast := by
  simp only [List.dropLast_concat]
  intro hin
  exact (List.nodup_append.mp h).2.2 n hin n (by simp) rfl

/-- the action sequence of a (non-stale) snapshot, with every intermediate object named -/
theorem snap_core (e : PEng) (d d1 d2 d3 : Disk) (m m1 m2 : Manifest) (dead gone : List Nat) (ns : Nat)
    (f : Frame e d e.store.docs ns) (hns : e.nextSeq = ns) (hm : d.manifest = some m)
    (hd1 : d1 = d.apply (.snapPut e.nextName ⟨e.nextSeq - 1, e.store.docs⟩))
    (hm1 : m1 = { m with snap := some e.nextName, snapSeq := some (e.nextSeq - 1) })
    (hd2 : d2 = d1.apply (.manifestPut m1))
    (hdead : dead = compactable d1 m1 (e.nextSeq - 1)) (hgone : gone = missingSegs d1 m1)
    (hm2 : m2 = { m1 with segs := m1.segs.filter fun n => !(dead.contains n || gone.contains n) })
    (hd3 : d3 = d2.apply (.manifestPut m2)) :
    Frame { e with nextName := e.nextName + 1, since := 0 } (d3.applyAll (dead.map Action.unlinkWal))
      e.store.docs ns ∧
    DInv d1 e.store.docs ns ∧ DInv d2 e.store.docs ns ∧
    AllPrefixes (fun d' => DInv d' e.store.docs ns) d3 (dead.map Action.unlinkWal) := by
  obtain ⟨m', hm', hs, hp, hr, hb, hsb, hss, hnd⟩ := f.dinv
  rw [hm] at hm'; cases hm'
  obtain ⟨init, hinit⟩ := f.active m hm
  have hfreshSnap : ∀ m', d.manifest = some m' → m'.snap ≠ some e.nextName := by
    intro m' hm' h
    exact Nat.lt_irrefl _ (f.pointed_lt m' hm' _ h)
  have h1 : DInv d1 e.store.docs ns := by
    rw [hd1]; exact dinv_snapPut d _ ns e.nextName _ f.dinv hfreshSnap
  have hmd1 : d1.manifest = some m := by rw [hd1]; exact hm
  have hsnapfile : alookup e.nextName d1.snaps = some (some ⟨ns - 1, e.store.docs⟩) := by
    rw [hd1, ← hns]; simp [Disk.apply]
  have hm1segs : m1.segs = m.segs := by rw [hm1]
  have h2 : DInv d2 e.store.docs ns := by
    rw [hd2, hm1, hns]
    exact dinv_pointer d1 _ ns e.nextName m _ h1 hmd1 hsnapfile (MapEq.refl _)
  have hmd2 : d2.manifest = some m1 := by rw [hd2]; rfl
  have hwals2 : d2.wals = d1.wals := by rw [hd2]; rfl
  have hbase2 : (snapBase d2 m1).2 = ns - 1 := by
    rw [hd2, hm1]
    simp only [snapBase, Disk.apply, hsnapfile]
  have hcov : ∀ n ∈ m1.segs, (!(dead.contains n || gone.contains n)) = false →
      ∀ en ∈ segEntries d2 n, 0 < en.seq ∧ en.seq ≤ (snapBase d2 m1).2 := by
    intro n _ hk en hen
    simp only [Bool.not_eq_eq_eq_not, Bool.not_false, Bool.or_eq_true, List.contains_eq_mem,
      decide_eq_true_eq] at hk
    rw [hbase2]
    rcases hk with hk | hk
    · rw [hdead] at hk
      simp only [compactable, List.mem_filter] at hk
      obtain ⟨_, hk2⟩ := hk
      simp only [segEntries, hwals2] at hen
      cases hw : alookup n d1.wals with
      | none => simp [hw] at hk2
      | some w =>
        simp only [hw, Bool.and_eq_true, List.all_eq_true, decide_eq_true_eq] at hk2
        simp only [hw, Option.map_some, Option.getD_some] at hen
        have := hk2.2 en hen
        omega
    · rw [hgone] at hk
      simp only [missingSegs, List.mem_filter, Option.isNone_iff_eq_none] at hk
      simp only [segEntries, hwals2, hk.2, Option.map_none, Option.getD_none, List.not_mem_nil] at hen
  have h3 : DInv d3 e.store.docs ns := by
    rw [hd3, hm2]
    exact dinv_prune d2 _ ns m1 _ h2 hmd2 hcov
  have hmd3 : d3.manifest = some m2 := by rw [hd3]; rfl
  have hlastkept : (!(dead.contains e.active || gone.contains e.active)) = true := by
    have hnd' : (init ++ [e.active]).Nodup := by rw [← hinit]; exact hnd
    have hnotdl := not_mem_dropLast_of_nodup init e.active hnd'
    simp only [Bool.not_eq_eq_eq_not, Bool.not_true, Bool.or_eq_false_iff, List.contains_eq_mem,
      decide_eq_false_iff_not]
    constructor
    · rw [hdead]; intro h
      simp only [compactable, List.mem_filter, hm1segs, hinit] at h
      exact hnotdl h.1
    · rw [hgone]; intro h
      simp only [missingSegs, List.mem_filter, hm1segs, hinit] at h
      exact hnotdl h.1
  have hm2segs : m2.segs = (init.filter fun n => !(dead.contains n || gone.contains n)) ++ [e.active] := by
    rw [hm2]
    simp only [hm1segs, hinit]
    exact filter_keep_last init e.active _ hlastkept
  have hunl : ∀ (l : List Nat) (dd : Disk), (∀ n ∈ l, n ∈ dead) → DInv dd e.store.docs ns →
      dd.manifest = some m2 →
      AllPrefixes (fun d' => DInv d' e.store.docs ns) dd (l.map Action.unlinkWal) ∧
      (dd.applyAll (l.map Action.unlinkWal)).manifest = some m2 ∧
      (∀ n ∈ akeys (dd.applyAll (l.map Action.unlinkWal)).wals, n ∈ akeys dd.wals) ∧
      (dd.applyAll (l.map Action.unlinkWal)).snaps = dd.snaps := by
    intro l
    induction l with
    | nil => intro dd _ hdd hmm; exact ⟨hdd, hmm, fun n h => h, rfl⟩
    | cons x rest ih =>
      intro dd hsub hdd hmm
      have hx : x ∈ dead := hsub x (List.mem_cons_self ..)
      have hnl : ∀ m', dd.manifest = some m' → x ∉ m'.segs := by
        intro m' hm'
        rw [hmm] at hm'; cases hm'
        rw [hm2]
        simp only [List.mem_filter, Bool.not_eq_eq_eq_not, Bool.not_true, Bool.or_eq_false_iff,
          List.contains_eq_mem, decide_eq_false_iff_not, not_and]
        intro _ h _; exact absurd hx h
      have hstep := dinv_unlinkWal dd _ ns x hdd hnl
      have := ih (dd.apply (.unlinkWal x)) (fun n hn => hsub n (List.mem_cons_of_mem _ hn)) hstep hmm
      refine ⟨⟨hdd, this.1⟩, this.2.1, ?_, this.2.2.2⟩
      intro n hn
      have h1 := this.2.2.1 n hn
      simp only [Disk.apply] at h1
      exact (mem_akeys_aerase x n _ h1).1
  obtain ⟨hu1, hu2, hu3, hu4⟩ := hunl dead d3 (fun _ h => h) h3 hmd3
  have hfinal : DInv (d3.applyAll (dead.map Action.unlinkWal)) e.store.docs ns := allPrefixes_last _ _ hu1
  refine ⟨⟨hfinal, ?_, ?_, ?_⟩, h1, h2, hu1⟩
  · intro m' hm'
    rw [hu2] at hm'; cases hm'
    exact ⟨_, hm2segs⟩
  · intro n hn
    have h1' := hu3 n hn
    have : d3.wals = d.wals := by rw [hd3, hd2, hd1]; rfl
    rw [this] at h1'
    have := f.walNames n h1'
    show n < e.nextName + 1; omega
  · intro n hn
    rw [hu4] at hn
    have : d3.snaps = aset e.nextName (some ⟨e.nextSeq - 1, e.store.docs⟩) d.snaps := by
      rw [hd3, hd2, hd1]; rfl
    rw [this] at hn
    show n < e.nextName + 1
    rcases (mem_akeys_aset _ _ _ _).mp hn with h | h
    · omega
    · have := f.snapNames n h; omega

theorem snapshot_spec (e : PEng) (d : Disk) (ns : Nat) (f : Frame e d e.store.docs ns)
    (hns : e.nextSeq = ns) :
    Frame (snapshot e d).1 (d.applyAll (snapshot e d).2) e.store.docs ns ∧
    AllPrefixes (fun d' => DInv d' e.store.docs ns) d (snapshot e d).2 ∧
    (snapshot e d).1.store = e.store ∧ (snapshot e d).1.nextSeq = e.nextSeq ∧
    (snapshot e d).1.cfg = e.cfg ∧ (snapshot e d).1.degraded = e.degraded := by
  obtain ⟨m, hm, _, _, _, _, _, hss, _⟩ := f.dinv
  have hstale : ¬ (m.snapSeq.getD 0 > e.nextSeq - 1) := by
    cases hq : m.snapSeq with
    | none => simp
    | some s =>
      have := hss s hq
      obtain ⟨m', hm', _, _, _, _, hsb, _, _⟩ := f.dinv
      rw [hm] at hm'; cases hm'
      simp only [Option.getD_some]; omega
  have core := snap_core e d _ _ _ m _ _ _ _ ns f hns hm rfl rfl rfl rfl rfl rfl rfl
  unfold snapshot
  simp only [hm, hstale, ↓reduceIte]
  exact ⟨core.1, ⟨f.dinv, core.2.1, core.2.2.1, core.2.2.2⟩, by simp⟩

end KyroModel
