/-
The disk invariant `DInv d docs ns` ("strict recovery of `d` yields `docs`; every sequence
number on disk is below `ns`") and its preservation by each logical action under the side
condition the engine establishes before issuing it.
-/
import KyroModel.Lemmas.Recover

namespace KyroModel

def DInv (d : Disk) (docs : Docs) (ns : Nat) : Prop :=
  ∃ m, d.manifest = some m ∧ SegsOk d m.segs ∧ SnapOk d m ∧
    MapEq (replay (snapBase d m).1 (snapBase d m).2 (listedEntries d m.segs)) docs ∧
    (∀ e ∈ listedEntries d m.segs, 0 < e.seq ∧ e.seq < ns) ∧
    (snapBase d m).2 < ns ∧ (∀ s, m.snapSeq = some s → s ≤ (snapBase d m).2) ∧ m.segs.Nodup

theorem maxSeq_lt (m ns : Nat) (es : List WEntry) (hm : m < ns) (h : ∀ e ∈ es, e.seq < ns) :
    maxSeq m es < ns := by
  induction es generalizing m with
  | nil => exact hm
  | cons e rest ih =>
    simp only [maxSeq, List.foldl_cons]
    apply ih
    · have := h e (List.mem_cons_self ..); omega
    · exact fun x hx => h x (List.mem_cons_of_mem _ hx)

/-- **A disk satisfying the invariant recovers, strictly, to exactly `docs`.** -/
theorem recover_of_DInv (d : Disk) (docs : Docs) (ns : Nat) (h : DInv d docs ns) :
    ∃ r mx, recover d = .ok (r, mx) ∧ MapEq r docs ∧ mx < ns := by
  obtain ⟨m, hm, hs, hp, hr, hb, hsb, _, _⟩ := h
  refine ⟨_, _, recover_eq d m hm hs hp, hr, ?_⟩
  exact maxSeq_lt _ _ _ hsb (fun e he => (hb e he).2)

theorem DInv.congr {d : Disk} {a b : Docs} {ns : Nat} (h : DInv d a ns) (hab : MapEq a b) :
    DInv d b ns := by
  obtain ⟨m, h1, h2, h3, h4, h5⟩ := h
  exact ⟨m, h1, h2, h3, h4.trans hab, h5⟩

theorem DInv.mono {d : Disk} {a : Docs} {ns ns' : Nat} (h : DInv d a ns) (hle : ns ≤ ns') :
    DInv d a ns' := by
  obtain ⟨m, h1, h2, h3, h4, h5, h6, h7, h8⟩ := h
  exact ⟨m, h1, h2, h3, h4, fun e he => ⟨(h5 e he).1, by have := (h5 e he).2; omega⟩, by omega,
    h7, h8⟩

/-! ### helper facts about `listedEntries` under updates of the `wals` map -/

theorem listedEntries_congr (d d' : Disk) (segs : List Nat)
    (h : ∀ n ∈ segs, alookup n d'.wals = alookup n d.wals) :
    listedEntries d' segs = listedEntries d segs := by
  induction segs with
  | nil => rfl
  | cons n rest ih =>
    simp only [listedEntries, List.flatMap_cons] at *
    rw [ih (fun k hk => h k (List.mem_cons_of_mem _ hk))]
    simp [segEntries, h n (List.mem_cons_self ..)]

theorem segsOk_congr (d d' : Disk) (segs : List Nat) (hs : SegsOk d segs)
    (h : ∀ n ∈ segs, alookup n d'.wals = alookup n d.wals) : SegsOk d' segs := by
  intro n hn
  rw [h n hn]; exact hs n hn

theorem listedEntries_append (d : Disk) (a b : List Nat) :
    listedEntries d (a ++ b) = listedEntries d a ++ listedEntries d b := by
  simp [listedEntries]

/-! ### the actions -/

/-- A1. append an entry with the next sequence number to the last listed segment -/
theorem dinv_append (d : Disk) (docs : Docs) (ns : Nat) (n : Nat) (en : WEntry)
    (h : DInv d docs ns) (hseq : en.seq = ns)
    (hlast : ∀ m, d.manifest = some m → ∃ init, m.segs = init ++ [n]) :
    DInv (d.apply (.walAppend n en)) (docs.apply en) (ns + 1) := by
  obtain ⟨m, hm, hs, hp, hr, hb, hsb, hss, hnd⟩ := h
  obtain ⟨init, hinit⟩ := hlast m hm
  have hn : n ∈ m.segs := by rw [hinit]; simp
  obtain ⟨w, hw, hc, hbm⟩ := hs n hn
  have hninit : n ∉ init := by
    rw [hinit] at hnd
    have := List.nodup_append.mp hnd
    intro hin
    exact this.2.2 n hin n (by simp) rfl
  simp only [Disk.apply, hw]
  refine ⟨m, hm, ?_, hp, ?_, ?_, by simpa [snapBase] using Nat.lt_succ_of_lt hsb,
    hss, hnd⟩
  · intro k hk
    by_cases hkn : k = n
    · subst hkn
      exact ⟨_, alookup_aset_self _ _ _, hc, hbm⟩
    · simp only [alookup_aset_ne n k _ _ hkn]; exact hs k hk
  · -- the listed entries gained exactly `en` at the end
    have hle : listedEntries { d with wals := aset n { w with entries := w.entries ++ [en] } d.wals } m.segs
        = listedEntries d m.segs ++ [en] := by
      rw [hinit, listedEntries_append, listedEntries_append]
      have h1 : listedEntries { d with wals := aset n { w with entries := w.entries ++ [en] } d.wals } init
          = listedEntries d init :=
        listedEntries_congr _ _ _ (fun k hk => by
          have : k ≠ n := fun e => hninit (e ▸ hk)
          exact alookup_aset_ne n k _ _ this)
      rw [h1]
      simp [listedEntries, segEntries, hw]
    have hsnap : snapBase { d with wals := aset n { w with entries := w.entries ++ [en] } d.wals } m
        = snapBase d m := rfl
    rw [hle, hsnap, replay_snoc_new _ _ _ _ (by omega)]
    exact Docs.apply_congr hr en
  · have hle : ∀ e ∈ listedEntries { d with wals := aset n { w with entries := w.entries ++ [en] } d.wals } m.segs,
        e ∈ listedEntries d m.segs ∨ e = en := by
      intro e he
      have : listedEntries { d with wals := aset n { w with entries := w.entries ++ [en] } d.wals } m.segs
          = listedEntries d m.segs ++ [en] := by
        rw [hinit, listedEntries_append, listedEntries_append]
        have h1 : listedEntries { d with wals := aset n { w with entries := w.entries ++ [en] } d.wals } init
            = listedEntries d init :=
          listedEntries_congr _ _ _ (fun k hk => by
            have : k ≠ n := fun e => hninit (e ▸ hk)
            exact alookup_aset_ne n k _ _ this)
        rw [h1]
        simp [listedEntries, segEntries, hw]
      rw [this] at he
      simpa using he
    intro e he
    rcases hle e he with h1 | h1
    · have := hb e h1; exact ⟨this.1, by omega⟩
    · subst h1; exact ⟨by omega, by omega⟩

/-- A2. create a segment file that the manifest does not list -/
theorem dinv_walCreate (d : Disk) (docs : Docs) (ns n : Nat) (h : DInv d docs ns)
    (hfresh : ∀ m, d.manifest = some m → n ∉ m.segs) :
    DInv (d.apply (.walCreate n)) docs ns := by
  obtain ⟨m, hm, hs, hp, hr, hb, hsb, hss, hnd⟩ := h
  have hne : ∀ k ∈ m.segs, alookup k (aset n ({entries := []} : WalFile) d.wals) = alookup k d.wals :=
    fun k hk => alookup_aset_ne n k _ _ (fun e => hfresh m hm (e ▸ hk))
  have hle := listedEntries_congr d { d with wals := aset n {entries := []} d.wals } m.segs hne
  refine ⟨m, hm, segsOk_congr d _ m.segs hs hne, hp, ?_, ?_, hsb, hss, hnd⟩
  · simp only [Disk.apply]; rw [hle]; exact hr
  · simp only [Disk.apply]; rw [hle]; exact hb

/-- A3. list a new, empty, clean segment at the end -/
theorem dinv_addSeg (d : Disk) (docs : Docs) (ns n : Nat) (m : Manifest) (h : DInv d docs ns)
    (hm : d.manifest = some m) (hfresh : n ∉ m.segs)
    (hw : ∃ w, alookup n d.wals = some w ∧ w.entries = [] ∧ w.corrupted = 0 ∧ w.badMagic = false) :
    DInv (d.apply (.manifestPut { m with segs := m.segs ++ [n] })) docs ns := by
  obtain ⟨m', hm', hs, hp, hr, hb, hsb, hss, hnd⟩ := h
  rw [hm] at hm'; cases hm'
  obtain ⟨w, hw1, hw2, hw3, hw4⟩ := hw
  have hle : listedEntries { d with manifest := some { m with segs := m.segs ++ [n] } } (m.segs ++ [n])
      = listedEntries d m.segs := by
    rw [listedEntries_append]
    have : listedEntries { d with manifest := some { m with segs := m.segs ++ [n] } } [n] = [] := by
      simp [listedEntries, segEntries, hw1, hw2]
    rw [this, List.append_nil]
    rfl
  refine ⟨{ m with segs := m.segs ++ [n] }, rfl, ?_, hp, ?_, ?_, hsb, hss, ?_⟩
  · intro k hk
    rcases List.mem_append.mp hk with h1 | h1
    · exact hs k h1
    · simp only [List.mem_singleton] at h1; subst h1; exact ⟨w, hw1, hw3, hw4⟩
  · simp only [Disk.apply]; rw [hle]; exact hr
  · simp only [Disk.apply]; rw [hle]; exact hb
  · simp only
    rw [List.nodup_append]
    exact ⟨hnd, by simp, fun a ha b hb' => by simp at hb'; subst hb'; exact fun e => hfresh (e ▸ ha)⟩

/-- A4. publish a snapshot file the manifest does not point at -/
theorem dinv_snapPut (d : Disk) (docs : Docs) (ns n : Nat) (s : SnapFile) (h : DInv d docs ns)
    (hfresh : ∀ m, d.manifest = some m → m.snap ≠ some n) :
    DInv (d.apply (.snapPut n s)) docs ns := by
  obtain ⟨m, hm, hs, hp, hr, hb, hsb, hss, hnd⟩ := h
  have hsame : snapBase { d with snaps := aset n (some s) d.snaps } m = snapBase d m := by
    unfold snapBase
    cases hsn : m.snap with
    | none => rfl
    | some k =>
      have : k ≠ n := fun e => hfresh m hm (by rw [hsn, e])
      simp only [alookup_aset_ne n k _ _ this]
  refine ⟨m, hm, hs, ?_, ?_, hb, ?_, ?_, hnd⟩
  · intro k hk
    have : k ≠ n := fun e => hfresh m hm (by rw [hk, e])
    obtain ⟨s', hs'⟩ := hp k hk
    exact ⟨s', by simp only [Disk.apply, alookup_aset_ne n k _ _ this]; exact hs'⟩
  · simp only [Disk.apply]; rw [hsame]; exact hr
  · simp only [Disk.apply]; rw [hsame]; exact hsb
  · simp only [Disk.apply]; rw [hsame]; exact hss

/-- A5. point the manifest at a snapshot of the current documents taken at `ns - 1` -/
theorem dinv_pointer (d : Disk) (docs : Docs) (ns n : Nat) (m : Manifest) (sdocs : Docs)
    (h : DInv d docs ns) (hm : d.manifest = some m)
    (hsnap : alookup n d.snaps = some (some ⟨ns - 1, sdocs⟩)) (heq : MapEq sdocs docs) :
    DInv (d.apply (.manifestPut { m with snap := some n, snapSeq := some (ns - 1) })) docs ns := by
  obtain ⟨m', hm', hs, hp, hr, hb, hsb, hss, hnd⟩ := h
  rw [hm] at hm'; cases hm'
  have hbase : snapBase { d with manifest := some { m with snap := some n, snapSeq := some (ns - 1) } }
      { m with snap := some n, snapSeq := some (ns - 1) } = (sdocs, ns - 1) := by
    simp [snapBase, hsnap]
  refine ⟨{ m with snap := some n, snapSeq := some (ns - 1) }, rfl, hs, ?_, ?_, hb, ?_, ?_, hnd⟩
  · intro k hk
    simp only [Option.some.injEq] at hk; subst hk
    exact ⟨_, hsnap⟩
  · simp only [Disk.apply]
    rw [hbase]
    simp only
    have : listedEntries { d with manifest := some { m with snap := some n, snapSeq := some (ns - 1) } } m.segs
        = listedEntries d m.segs := rfl
    rw [this, replay_all_covered _ _ _ (fun e he => ⟨(hb e he).1, by have := (hb e he).2; omega⟩)]
    exact heq
  · simp only [Disk.apply]; rw [hbase]; simp only; omega
  · intro s hs'
    simp only [Disk.apply]; rw [hbase]
    simp only [Option.some.injEq] at hs'; simp only; omega

/-- replaying a segment list does not depend on segments whose entries the snapshot covers -/
theorem replay_filter_covered (d : Disk) (base : Docs) (sq : Nat) (segs : List Nat) (keep : Nat → Bool)
    (h : ∀ n ∈ segs, keep n = false → ∀ e ∈ segEntries d n, 0 < e.seq ∧ e.seq ≤ sq) :
    replay base sq (listedEntries d (segs.filter keep)) = replay base sq (listedEntries d segs) := by
  induction segs generalizing base with
  | nil => rfl
  | cons n rest ih =>
    have hrest : ∀ k ∈ rest, keep k = false → ∀ e ∈ segEntries d k, 0 < e.seq ∧ e.seq ≤ sq :=
      fun k hk => h k (List.mem_cons_of_mem _ hk)
    cases hk : keep n with
    | true =>
      simp only [List.filter_cons, hk, ↓reduceIte]
      have : ∀ l, listedEntries d (n :: l) = segEntries d n ++ listedEntries d l := fun l => by
        simp [listedEntries]
      rw [this, this, replay_append, replay_append]
      exact ih _ hrest
    | false =>
      simp only [List.filter_cons, hk, Bool.false_eq_true, ↓reduceIte]
      have : listedEntries d (n :: rest) = segEntries d n ++ listedEntries d rest := by
        simp [listedEntries]
      rw [this, replay_append, replay_all_covered base sq _ (h n (List.mem_cons_self ..) hk)]
      exact ih _ hrest

theorem mem_listedEntries (d : Disk) (segs : List Nat) (e : WEntry) :
    e ∈ listedEntries d segs ↔ ∃ n ∈ segs, e ∈ segEntries d n := by
  simp [listedEntries, List.mem_flatMap]

/-- A6. drop from the list segments whose entries the snapshot covers -/
theorem dinv_prune (d : Disk) (docs : Docs) (ns : Nat) (m : Manifest) (keep : Nat → Bool)
    (h : DInv d docs ns) (hm : d.manifest = some m)
    (hcov : ∀ n ∈ m.segs, keep n = false →
      ∀ e ∈ segEntries d n, 0 < e.seq ∧ e.seq ≤ (snapBase d m).2) :
    DInv (d.apply (.manifestPut { m with segs := m.segs.filter keep })) docs ns := by
  obtain ⟨m', hm', hs, hp, hr, hb, hsb, hss, hnd⟩ := h
  rw [hm] at hm'; cases hm'
  have hbase : snapBase { d with manifest := some { m with segs := m.segs.filter keep } }
      { m with segs := m.segs.filter keep } = snapBase d m := rfl
  refine ⟨{ m with segs := m.segs.filter keep }, rfl, ?_, hp, ?_, ?_, ?_, hss, hnd.filter _⟩
  · intro k hk; exact hs k (List.mem_filter.mp hk).1
  · simp only [Disk.apply]
    rw [hbase]
    have : listedEntries { d with manifest := some { m with segs := m.segs.filter keep } } (m.segs.filter keep)
        = listedEntries d (m.segs.filter keep) := rfl
    rw [this, replay_filter_covered d _ _ m.segs keep hcov]
    exact hr
  · intro e he
    have he' : e ∈ listedEntries d (m.segs.filter keep) := he
    obtain ⟨n, hn, hen⟩ := (mem_listedEntries d _ e).mp he'
    exact hb e ((mem_listedEntries d _ e).mpr ⟨n, (List.mem_filter.mp hn).1, hen⟩)
  · simp only [Disk.apply]; rw [hbase]; exact hsb

/-- A7. unlink a segment file the manifest does not list -/
theorem dinv_unlinkWal (d : Disk) (docs : Docs) (ns n : Nat) (h : DInv d docs ns)
    (hun : ∀ m, d.manifest = some m → n ∉ m.segs) :
    DInv (d.apply (.unlinkWal n)) docs ns := by
  obtain ⟨m, hm, hs, hp, hr, hb, hsb, hss, hnd⟩ := h
  have hne : ∀ k ∈ m.segs, alookup k (aerase n d.wals) = alookup k d.wals :=
    fun k hk => alookup_aerase_ne n k _ (fun e => hun m hm (e ▸ hk))
  have hle := listedEntries_congr d { d with wals := aerase n d.wals } m.segs hne
  refine ⟨m, hm, segsOk_congr d _ m.segs hs hne, hp, ?_, ?_, hsb, hss, hnd⟩
  · simp only [Disk.apply]; rw [hle]; exact hr
  · simp only [Disk.apply]; rw [hle]; exact hb

/-- A8. unlink a snapshot file the manifest does not point at -/
theorem dinv_unlinkSnap (d : Disk) (docs : Docs) (ns n : Nat) (h : DInv d docs ns)
    (hun : ∀ m, d.manifest = some m → m.snap ≠ some n) :
    DInv (d.apply (.unlinkSnap n)) docs ns := by
  obtain ⟨m, hm, hs, hp, hr, hb, hsb, hss, hnd⟩ := h
  have hsame : snapBase { d with snaps := aerase n d.snaps } m = snapBase d m := by
    unfold snapBase
    cases hsn : m.snap with
    | none => rfl
    | some k =>
      have : k ≠ n := fun e => hun m hm (by rw [hsn, e])
      simp only [alookup_aerase_ne n k _ this]
  refine ⟨m, hm, hs, ?_, ?_, hb, ?_, ?_, hnd⟩
  · intro k hk
    have : k ≠ n := fun e => hun m hm (by rw [hk, e])
    obtain ⟨s', hs'⟩ := hp k hk
    exact ⟨s', by simp only [Disk.apply, alookup_aerase_ne n k _ this]; exact hs'⟩
  · simp only [Disk.apply]; rw [hsame]; exact hr
  · simp only [Disk.apply]; rw [hsame]; exact hsb
  · simp only [Disk.apply]; rw [hsame]; exact hss

end KyroModel
