/-
The recent-write tier (hot tier) never grows except through `insert`, and `insert` drains it
first when it is at the hard limit.
-/
import KyroModel.Lemmas.Cache

namespace KyroModel
section
variable {D : Type} [DecidableEq D] (digest : Vec → D)

/-- `s'` holds no more mirror entries than `s` and has the same configuration. -/
def HotLe (s s' : TState D) : Prop := s'.hot.length ≤ s.hot.length ∧ s'.cfg = s.cfg

theorem HotLe.refl (s : TState D) : HotLe s s := ⟨Nat.le_refl _, rfl⟩

theorem HotLe.trans {a b c : TState D} (h1 : HotLe a b) (h2 : HotLe b c) : HotLe a c :=
  ⟨Nat.le_trans h2.1 h1.1, h2.2.trans h1.2⟩

theorem hotLe_discardHot (s : TState D) (id : Nat) : HotLe s (discardHot s id) :=
  ⟨length_aerase_le _ _, rfl⟩

theorem hotLe_admitTo (s : TState D) (a : Bool) (id : Nat) (v : Vec) (t : Token D) :
    HotLe s (admitTo s a id v t) := by
  unfold admitTo; split <;> exact ⟨Nat.le_refl _, rfl⟩

theorem hotLe_hotLeg (s : TState D) (id : Nat) : HotLe s (hotLeg digest s id).1 := by
  unfold hotLeg
  split
  · split
    · exact HotLe.refl s
    · exact hotLe_discardHot s id
    · exact hotLe_discardHot s id
    · exact HotLe.refl s
  · exact HotLe.refl s

theorem hotLe_queryL1 (s : TState D) (id : Nat) : HotLe s (queryL1 digest s id).1 := by
  unfold queryL1
  simp only
  split
  · split <;> exact ⟨Nat.le_refl _, rfl⟩
  · exact ⟨Nat.le_refl _, rfl⟩

theorem hotLe_queryL2 (s : TState D) (id : Nat) (a : Bool) :
    HotLe s (queryL2 digest s id a).1 := by
  unfold queryL2
  split
  · split
    · exact hotLe_admitTo ..
    · exact hotLe_discardHot s id
    · exact hotLe_discardHot s id
    · exact HotLe.refl s
  · exact HotLe.refl s

theorem hotLe_queryL3 (s : TState D) (id : Nat) (a : Bool) :
    HotLe s (queryL3 digest s id a).1 := by
  unfold queryL3
  split
  · exact hotLe_admitTo ..
  · exact HotLe.refl s

theorem hotLe_query (s : TState D) (id : Nat) (a : Bool) : HotLe s (query digest s id a).1 := by
  have h1 := hotLe_queryL1 digest s id
  unfold query
  generalize queryL1 digest s id = r1 at h1 ⊢
  obtain ⟨s1, o1⟩ := r1
  cases o1 with
  | some v => exact h1
  | none =>
    simp only at h1 ⊢
    have h2 := hotLe_queryL2 digest s1 id a
    generalize queryL2 digest s1 id a = r2 at h2 ⊢
    obtain ⟨s2, o2⟩ := r2
    cases o2 with
    | some v => exact h1.trans h2
    | none =>
      simp only at h2 ⊢
      have h3 := hotLe_queryL3 digest s2 id a
      generalize queryL3 digest s2 id a = r3 at h3 ⊢
      obtain ⟨s3, o3⟩ := r3
      cases o3 <;> exact (h1.trans h2).trans h3

theorem hotLe_docWithMeta (s : TState D) (id : Nat) : HotLe s (docWithMeta digest s id).1 := by
  unfold docWithMeta
  split
  · have h1 := hotLe_hotLeg digest s id
    generalize hotLeg digest s id = r at h1 ⊢
    obtain ⟨s1, o⟩ := r
    cases o with
    | some v => exact h1
    | none => simp only at h1 ⊢; split <;> exact h1
  · exact HotLe.refl s

theorem hotLe_peekLeg (s : TState D) (id : Nat) : HotLe s (peekLeg digest s id).1 := by
  unfold peekLeg
  split
  · split <;> exact ⟨Nat.le_refl _, rfl⟩
  · exact HotLe.refl s

theorem hotLe_embAware (s : TState D) (id : Nat) : HotLe s (embAware digest s id).1 := by
  have h1 := hotLe_peekLeg digest s id
  unfold embAware
  generalize peekLeg digest s id = r1 at h1 ⊢
  obtain ⟨s1, o1⟩ := r1
  cases o1 with
  | some v => exact h1
  | none =>
    simp only at h1 ⊢
    have h2 := hotLe_hotLeg digest s1 id
    generalize hotLeg digest s1 id = r2 at h2 ⊢
    obtain ⟨s2, o2⟩ := r2
    cases o2 <;> exact h1.trans h2

theorem hotLe_bulkOne (s : TState D) (id : Nat) : HotLe s (bulkOne digest s id).1 := by
  unfold bulkOne
  split
  · split
    · split <;> exact HotLe.refl s
    · exact hotLe_discardHot s id
    · exact hotLe_discardHot s id
    · exact HotLe.refl s
  · exact HotLe.refl s

theorem hotLe_bulkPass (ids : List Nat) (s : TState D) : HotLe s (bulkPass digest s ids).1 := by
  induction ids generalizing s with
  | nil => exact HotLe.refl s
  | cons i rest ih =>
    unfold bulkPass
    have h1 := hotLe_bulkOne digest s i
    generalize bulkOne digest s i = r at h1 ⊢
    obtain ⟨s1, o⟩ := r
    simp only at h1 ⊢
    have h2 := ih s1
    generalize bulkPass digest s1 rest = r2 at h2 ⊢
    obtain ⟨s2, rs⟩ := r2
    exact h1.trans h2

theorem hotLe_bulkQuery (s : TState D) (ids : List Nat) : HotLe s (bulkQuery digest s ids).1 := by
  unfold bulkQuery
  have := hotLe_bulkPass digest ids s
  generalize bulkPass digest s ids = r at this ⊢
  obtain ⟨s1, fp⟩ := r
  exact this

/-- the reconciliation fold: mirror untouched, configuration untouched, and every drained
    document is either counted as a success or put on the failed list -/
theorem reconcile_fold_spec (docs : List (Nat × HotDoc D))
    (acc : TState D × List (Nat × HotDoc D) × Nat × Bool) :
    let r := docs.foldl
      (fun (acc : TState D × List (Nat × HotDoc D) × Nat × Bool) p =>
        let (st, failed, ok, clr) := acc
        let (id, h) := p
        match alookup id st.cold with
        | some d =>
          let tokDiv := coldToken digest d ≠ h.tok
          let embDiv := d.vec ≠ h.vec
          let mdDiv := d.md ≠ h.md
          let st1 := if embDiv then { st with l1a := st.l1a.invalidate id } else st
          (st1, failed, ok + 1, clr || decide tokDiv || decide embDiv || decide mdDiv)
        | none =>
          if h.vec.length = st.cfg.dim then
            ({ st with cold := st.cold.insert id h.vec h.md }, failed, ok + 1, true)
          else
            (st, failed ++ [(id, h)], ok, clr)) acc
    r.1.hot = acc.1.hot ∧ r.1.cfg = acc.1.cfg ∧
      r.2.1.length + r.2.2.1 = acc.2.1.length + acc.2.2.1 + docs.length := by
  induction docs generalizing acc with
  | nil => simp
  | cons p rest ih =>
    simp only [List.foldl_cons]
    obtain ⟨st, failed, ok, clr⟩ := acc
    obtain ⟨id, hd⟩ := p
    simp only
    split
    · rename_i d hl
      have := ih ((if d.vec ≠ hd.vec then { st with l1a := st.l1a.invalidate id } else st),
        failed, ok + 1, clr || decide (coldToken digest d ≠ hd.tok) || decide (d.vec ≠ hd.vec) || decide (d.md ≠ hd.md))
      simp only at this
      refine ⟨?_, ?_, ?_⟩
      · rw [this.1]; split <;> rfl
      · rw [this.2.1]; split <;> rfl
      · rw [this.2.2]; simp only [List.length_cons]; omega
    · split
      · have := ih ({ st with cold := st.cold.insert id hd.vec hd.md }, failed, ok + 1, true)
        simp only at this
        refine ⟨this.1, this.2.1, ?_⟩
        rw [this.2.2]; simp only [List.length_cons]; omega
      · have := ih (st, failed ++ [(id, hd)], ok, clr)
        simp only at this
        refine ⟨this.1, this.2.1, ?_⟩
        rw [this.2.2]; simp only [List.length_cons, List.length_append, List.length_nil]; omega

/-- What a drain of a non-empty mirror leaves behind. -/
theorem drainNonEmpty_spec (s : TState D) (hne : s.hot.length ≠ 0) :
    (drainNonEmpty digest s).1.cfg = s.cfg ∧
    (drainNonEmpty digest s).1.hot.length ≤ s.hot.length ∧
    ((drainNonEmpty digest s).2.isSome → (drainNonEmpty digest s).1.hot.length + 1 ≤ s.hot.length) := by
  unfold drainNonEmpty reconcile
  have := reconcile_fold_spec digest s.hot ({ s with hot := [] }, [], 0, false)
  simp only at this
  generalize (s.hot.foldl _ (({ s with hot := [] } : TState D), [], 0, false)) = r at this ⊢
  obtain ⟨s1, failed, ok, clr⟩ := r
  simp only [List.length_nil] at this
  obtain ⟨_, hcfg, hcount⟩ := this
  simp only
  split
  · rename_i hf
    refine ⟨hcfg, ?_, ?_⟩
    · simp only; omega
    · simp
  · rename_i hf
    split
    · refine ⟨hcfg, ?_, ?_⟩
      · simp only; omega
      · intro _; simp only; omega
    · refine ⟨hcfg, ?_, ?_⟩
      · simp only; omega
      · intro _; simp only; omega

theorem hotLe_drain (s : TState D) : HotLe s (drain digest s).1 := by
  unfold drain
  split
  · exact HotLe.refl s
  · rename_i hne
    have := drainNonEmpty_spec digest s hne
    exact ⟨this.2.1, this.1⟩

theorem hotLe_flush (s : TState D) (f : Bool) : HotLe s (flush digest s f).1 := by
  unfold flush
  split
  · exact HotLe.refl s
  · exact hotLe_drain digest s

theorem foldl_aerase_length_le {α : Type} (ids : List Nat) (h : List (Nat × α)) :
    (ids.foldl (fun h id => aerase id h) h).length ≤ h.length := by
  induction ids generalizing h with
  | nil => exact Nat.le_refl _
  | cons i rest ih =>
    rw [List.foldl_cons]
    exact Nat.le_trans (ih _) (length_aerase_le i h)

theorem hotLe_delete (s : TState D) (id : Nat) : HotLe s (delete s id).1 := by
  unfold delete
  split <;> exact ⟨length_aerase_le _ _, rfl⟩

theorem hotLe_batchDelete (s : TState D) (ids : List Nat) : HotLe s (batchDelete s ids).1 := by
  unfold batchDelete
  split
  · exact HotLe.refl s
  · exact ⟨foldl_aerase_length_le _ _, rfl⟩

theorem length_aset_of_mem {α : Type} (k : Nat) (v : α) (l : List (Nat × α)) (h : k ∈ akeys l) :
    (aset k v l).length ≤ l.length := by
  unfold aset
  have := aerase_length_lt_of_mem k l h
  simp only [List.length_cons]; omega

theorem length_aset_le_succ {α : Type} (k : Nat) (v : α) (l : List (Nat × α)) :
    (aset k v l).length ≤ l.length + 1 := by
  unfold aset
  have := length_aerase_le k l
  simp only [List.length_cons]; omega

theorem hotLe_updateMeta (s : TState D) (id : Nat) (m : Meta) (mg : Bool) :
    HotLe s (updateMeta s id m mg).1 := by
  unfold updateMeta
  split
  · exact HotLe.refl s
  · refine ⟨?_, rfl⟩
    simp only
    unfold hotUpdateMeta
    split
    · rename_i d hl
      exact length_aset_of_mem _ _ _ (mem_akeys_of_alookup id d s.hot hl)
    · exact Nat.le_refl _

theorem hotLe_bulkLoad (s : TState D) (docs : List (Nat × Vec × Meta × Bool)) :
    HotLe s (bulkLoad s docs).1 := ⟨Nat.le_refl _, rfl⟩

theorem hotLe_audit (s : TState D) : HotLe s (audit digest s).1 := by
  unfold audit
  split
  · exact HotLe.refl s
  · exact ⟨foldl_aerase_length_le _ _, rfl⟩

theorem insertCore_hot (s : TState D) (id : Nat) (v : Vec) (m : Meta) (a : Bool) :
    (insertCore digest s id v m a).1.hot.length ≤ s.hot.length + 1 ∧
    (insertCore digest s id v m a).1.cfg = s.cfg := by
  unfold insertCore
  split
  · exact ⟨Nat.le_succ _, rfl⟩
  · split
    · exact ⟨length_aset_le_succ _ _ _, rfl⟩
    · exact ⟨Nat.le_succ _, rfl⟩

theorem drain_spec (s : TState D) :
    (drain digest s).1.cfg = s.cfg ∧
    (drain digest s).1.hot.length ≤ s.hot.length ∧
    ((drain digest s).2.isSome → s.hot.length ≠ 0 →
      (drain digest s).1.hot.length + 1 ≤ s.hot.length) := by
  unfold drain
  split
  · rename_i h0
    exact ⟨rfl, Nat.le_refl _, fun _ hne => absurd h0 hne⟩
  · rename_i hne
    have := drainNonEmpty_spec digest s hne
    exact ⟨this.1, this.2.1, fun hs _ => this.2.2 hs⟩

/-- The hard limit is re-established by every `insert` (successful or not). -/
theorem insert_hot_bound (s : TState D) (id : Nat) (v : Vec) (m : Meta) (a : Bool)
    (hhard : 1 ≤ s.cfg.hard) (hb : s.hot.length ≤ s.cfg.hard) :
    (insert digest s id v m a).1.hot.length ≤ s.cfg.hard ∧
    (insert digest s id v m a).1.cfg = s.cfg := by
  unfold insert
  split
  · rename_i hge
    have hs := drain_spec digest s
    generalize drain digest s = r at hs ⊢
    obtain ⟨s1, o⟩ := r
    cases o with
    | none => exact ⟨by simp only at hs ⊢; omega, hs.1⟩
    | some n =>
      simp only at hs ⊢
      have h1 := hs.2.2 (by simp) (by omega)
      have := insertCore_hot digest s1 id v m a
      exact ⟨by omega, this.2.trans hs.1⟩
  · rename_i hlt
    have := insertCore_hot digest s id v m a
    exact ⟨by omega, this.2⟩

/-- Engine operations (everything but the harness's direct plant into the hot tier) keep
    `|hot| ≤ hard`. -/
theorem hotBound_applyOp (s : TState D) (op : TOp D) (hop : op.isEngineOp = true)
    (hhard : 1 ≤ s.cfg.hard) (hb : s.hot.length ≤ s.cfg.hard) :
    (applyOp digest s op).hot.length ≤ (applyOp digest s op).cfg.hard ∧
    (applyOp digest s op).cfg = s.cfg := by
  have lift : ∀ s', HotLe s s' → s'.hot.length ≤ s'.cfg.hard ∧ s'.cfg = s.cfg := by
    intro s' h
    refine ⟨?_, h.2⟩
    rw [h.2]; exact Nat.le_trans h.1 hb
  cases op with
  | insert id v m a =>
    have := insert_hot_bound digest s id v m a hhard hb
    exact ⟨by simp only [applyOp]; rw [this.2]; exact this.1, this.2⟩
  | delete id => exact lift _ (hotLe_delete s id)
  | batchDelete ids => exact lift _ (hotLe_batchDelete s ids)
  | updateMeta id m mg => exact lift _ (hotLe_updateMeta s id m mg)
  | bulkLoad docs => exact lift _ (hotLe_bulkLoad s docs)
  | flush f => exact lift _ (hotLe_flush digest s f)
  | audit => exact lift _ (hotLe_audit digest s)
  | query id a => exact lift _ (hotLe_query digest s id a)
  | docWithMeta id => exact lift _ (hotLe_docWithMeta digest s id)
  | embAware id => exact lift _ (hotLe_embAware digest s id)
  | bulkQuery ids => exact lift _ (hotLe_bulkQuery digest s ids)
  | pokeCache id v t => exact lift _ ⟨Nat.le_refl _, rfl⟩
  | pokeHot id v m t => simp [TOp.isEngineOp] at hop

end
end KyroModel
