/-
Correctness of the index evaluation of a filter against the reference semantics.
-/
import KyroModel.Lemmas.IndexInv

namespace KyroModel

def UniqueKeys (m : MetaMap) : Prop := (m.map (·.1)).Nodup

theorem get_eq_some_iff (m : MetaMap) (hu : UniqueKeys m) (k v : String) :
    m.get k = some v ↔ (k, v) ∈ m := by
  induction m with
  | nil => simp [MetaMap.get]
  | cons p rest ih =>
    obtain ⟨k', v'⟩ := p
    simp only [UniqueKeys, List.map_cons, List.nodup_cons] at hu
    have ih' := ih hu.2
    unfold MetaMap.get at *
    simp only [List.find?_cons]
    by_cases hk : k' = k
    · subst hk
      simp only [beq_self_eq_true, Option.map_some, Option.some.injEq, List.mem_cons,
        Prod.mk.injEq, true_and]
      constructor
      · intro h; exact Or.inl h.symm
      · rintro (h | h)
        · exact h.symm
        · exfalso; apply hu.1
          simp only [List.mem_map]; exact ⟨(k', v), h, rfl⟩
    · have : (k' == k) = false := by simp [hk]
      simp only [this, List.mem_cons, Prod.mk.injEq]
      rw [ih']
      constructor
      · intro h; exact Or.inr h
      · rintro (⟨h, _⟩ | h)
        · exact absurd h.symm hk
        · exact h

theorem get_isSome_iff (m : MetaMap) (k : String) : (m.get k).isSome ↔ ∃ v, (k, v) ∈ m := by
  induction m with
  | nil => simp [MetaMap.get]
  | cons p rest ih =>
    obtain ⟨k', v'⟩ := p
    unfold MetaMap.get at *
    simp only [List.find?_cons]
    by_cases hk : k' = k
    · subst hk; simp
    · have : (k' == k) = false := by simp [hk]
      simp only [this, List.mem_cons, Prod.mk.injEq]
      rw [ih]
      constructor
      · rintro ⟨v, h⟩; exact ⟨v, Or.inr h⟩
      · rintro ⟨v, ⟨h, _⟩ | h⟩
        · exact absurd h.symm hk
        · exact ⟨v, h⟩

theorem mem_slotsOf {τ : Type} (l : List (τ × Nat)) (p : τ → Bool) (i : Nat) :
    i ∈ slotsOf l p ↔ ∃ t, (t, i) ∈ l ∧ p t = true := by
  simp only [slotsOf, List.mem_map, List.mem_filter]
  constructor
  · rintro ⟨⟨t, j⟩, ⟨hm, hp⟩, rfl⟩; exact ⟨t, hm, hp⟩
  · rintro ⟨t, hm, hp⟩; exact ⟨(t, i), ⟨hm, hp⟩, rfl⟩

section
variable (parse : String → Option Nat)

theorem mem_tagsNum (m : MetaMap) (k : String) (key : Nat) :
    (k, key) ∈ tagsNum parse m ↔
      ∃ v x, (k, v) ∈ m ∧ parse v = some x ∧ f64IsNaN x = false ∧ key = orderedKey x := by
  simp only [tagsNum, List.mem_filterMap]
  constructor
  · rintro ⟨⟨k', v⟩, hm, h⟩
    simp only at h
    split at h
    · rename_i x hx
      split at h
      · cases h
      · rename_i hn
        simp only [Option.some.injEq, Prod.mk.injEq] at h
        obtain ⟨rfl, rfl⟩ := h
        exact ⟨v, x, hm, hx, by simpa using hn, rfl⟩
    · cases h
  · rintro ⟨v, x, hm, hx, hn, rfl⟩
    exact ⟨(k, v), hm, by simp [hx, hn]⟩

theorem mem_tagsNumDocs (m : MetaMap) (k : String) :
    k ∈ tagsNumDocs parse m ↔ ∃ v, (k, v) ∈ m ∧ (parse v).isSome = true := by
  simp only [tagsNumDocs, List.mem_filterMap]
  constructor
  · rintro ⟨⟨k', v⟩, hm, h⟩
    simp only at h
    split at h
    · rename_i hs
      simp only [Option.some.injEq] at h
      subst h
      exact ⟨v, hm, hs⟩
    · cases h
  · rintro ⟨v, hm, hs⟩
    exact ⟨(k, v), hm, by simp [hs]⟩

theorem cmpNum_eq_cmpKey (bd : Bound) (x y : Nat) (hx : x < 2 ^ 64) (hy : y < 2 ^ 64)
    (hnx : f64IsNaN x = false) (hny : f64IsNaN y = false) :
    bd.cmpNum x y = bd.cmpKey (orderedKey x) (orderedKey y) := by
  have l1 := orderedKey_lt x y hx hy
  have l2 := orderedKey_lt y x hy hx
  have e1 := orderedKey_eq x y hx hy
  unfold Bound.cmpNum Bound.cmpKey
  simp only [hnx, hny, Bool.or_self, Bool.false_eq_true, ↓reduceIte]
  cases bd <;> simp only <;> rw [Bool.eq_iff_iff] <;>
    simp only [Bool.or_eq_true, decide_eq_true_eq, l1, l2, e1] <;> omega

variable (hp : ∀ s x, parse s = some x → x < 2 ^ 64)
include hp

/-- `compile_range_filter_to_bitmap` is exact -/
theorem compileRange_correct (x : MetaIndex) (V : SlotView) (h : IdxInv parse x V)
    (hu : ∀ i, UniqueKeys (V.md i)) (k : String) (b : Option Bound) (i : Nat) :
    i ∈ compileRange parse x k b ↔ V.live i = true ∧ matchesRange parse k b (V.md i) = true := by
  unfold compileRange matchesRange
  cases b with
  | none =>
    simp only [mem_slotsOf, beq_iff_eq]
    constructor
    · rintro ⟨⟨k', v⟩, hm, rfl⟩
      have := (h.kv (k', v) i).mp hm
      refine ⟨this.1, ?_⟩
      have hs : ((V.md i).get k').isSome := (get_isSome_iff _ _).mpr ⟨v, this.2⟩
      cases hg : (V.md i).get k' with
      | none => rw [hg] at hs; cases hs
      | some val => rfl
    · rintro ⟨hl, hmr⟩
      cases hg : (V.md i).get k with
      | none => rw [hg] at hmr; cases hmr
      | some val =>
        have := (get_eq_some_iff _ (hu i) k val).mp hg
        exact ⟨(k, val), (h.kv (k, val) i).mpr ⟨hl, this⟩, rfl⟩
  | some bd =>
    simp only
    -- membership in the lexicographic branch
    have hlex : ∀ j, j ∈ slotsOf x.lex (fun t => t.1 == k && bd.cmpStr t.2) ↔
        V.live j = true ∧ ∃ v, (V.md j).get k = some v ∧ bd.cmpStr v = true := by
      intro j
      simp only [mem_slotsOf, Bool.and_eq_true, beq_iff_eq]
      constructor
      · rintro ⟨⟨k', v⟩, hm, rfl, hc⟩
        have := (h.lex (k', v) j).mp hm
        exact ⟨this.1, v, (get_eq_some_iff _ (hu j) _ _).mpr this.2, hc⟩
      · rintro ⟨hl, v, hg, hc⟩
        exact ⟨(k, v), (h.lex (k, v) j).mpr ⟨hl, (get_eq_some_iff _ (hu j) _ _).mp hg⟩, rfl, hc⟩
    cases hpb : parse bd.value with
    | none =>
      simp only
      rw [hlex]
      constructor
      · rintro ⟨hl, v, hg, hc⟩
        refine ⟨hl, ?_⟩
        simp only [hg]
        cases parse v <;> exact hc
      · rintro ⟨hl, hm⟩
        cases hg : (V.md i).get k with
        | none => rw [hg] at hm; cases hm
        | some v =>
          rw [hg] at hm
          refine ⟨hl, v, rfl, ?_⟩
          cases hpv : parse v <;> simp only [hpv] at hm <;> exact hm
    | some bn =>
      simp only
      have hbn := hp _ _ hpb
      -- membership in the "numeric docs" bitmap
      have hnd : ∀ j, j ∈ slotsOf x.numDocs (fun t => t == k) ↔
          V.live j = true ∧ ∃ v, (V.md j).get k = some v ∧ (parse v).isSome = true := by
        intro j
        simp only [mem_slotsOf, beq_iff_eq]
        constructor
        · rintro ⟨k', hm, rfl⟩
          have := (h.numDocs k' j).mp hm
          obtain ⟨v, hv, hs⟩ := (mem_tagsNumDocs parse _ _).mp this.2
          exact ⟨this.1, v, (get_eq_some_iff _ (hu j) _ _).mpr hv, hs⟩
        · rintro ⟨hl, v, hg, hs⟩
          exact ⟨k, (h.numDocs k j).mpr ⟨hl, (mem_tagsNumDocs parse _ _).mpr
            ⟨v, (get_eq_some_iff _ (hu j) _ _).mp hg, hs⟩⟩, rfl⟩
      simp only [List.mem_append, List.mem_filter, Bool.not_eq_true', List.contains_eq_mem,
        decide_eq_false_iff_not]
      rw [hlex, hnd]
      constructor
      · rintro (⟨⟨hl, v, hg, hc⟩, hnn⟩ | hnum)
        · refine ⟨hl, ?_⟩
          simp only [hg]
          cases hpv : parse v with
          | none => exact hc
          | some xv => exact absurd ⟨hl, v, hg, by simp [hpv]⟩ hnn
        · split at hnum
          · simp at hnum
          · rename_i hnan
            simp only [mem_slotsOf, Bool.and_eq_true, beq_iff_eq] at hnum
            obtain ⟨⟨k', key⟩, hm, rfl, hc⟩ := hnum
            have := (h.num (k', key) i).mp hm
            obtain ⟨v, xv, hv, hpv, hnx, rfl⟩ := (mem_tagsNum parse _ _ _).mp this.2
            refine ⟨this.1, ?_⟩
            simp only [(get_eq_some_iff _ (hu i) _ _).mpr hv, hpv]
            rw [cmpNum_eq_cmpKey bd xv bn (hp _ _ hpv) hbn hnx (by simpa using hnan)]
            exact hc
      · rintro ⟨hl, hm⟩
        cases hg : (V.md i).get k with
        | none => rw [hg] at hm; cases hm
        | some v =>
          rw [hg] at hm
          cases hpv : parse v with
          | none =>
            simp only [hpv] at hm
            left
            refine ⟨⟨hl, v, rfl, hm⟩, ?_⟩
            rintro ⟨_, v', hg', hs⟩
            simp only [Option.some.injEq] at hg'
            subst hg'
            simp [hpv] at hs
          | some xv =>
            simp only [hpv] at hm
            right
            have hnan : f64IsNaN xv = false ∧ f64IsNaN bn = false := by
              unfold Bound.cmpNum at hm
              split at hm
              · cases hm
              · rename_i hh; simpa using hh
            simp only [hnan.2, Bool.false_eq_true, ↓reduceIte, mem_slotsOf, Bool.and_eq_true,
              beq_iff_eq]
            refine ⟨(k, orderedKey xv), (h.num _ i).mpr ⟨hl, (mem_tagsNum parse _ _ _).mpr
              ⟨v, xv, (get_eq_some_iff _ (hu i) _ _).mp hg, hpv, hnan.1, rfl⟩⟩, rfl, ?_⟩
            rw [← cmpNum_eq_cmpKey bd xv bn (hp _ _ hpv) hbn hnan.1 hnan.2]
            exact hm

/-- what a correct bitmap for `f` is -/
def Exact (V : SlotView) (f : Filter) (b : List Nat) : Prop :=
  ∀ i, i ∈ b ↔ V.live i = true ∧ matchesF parse f (V.md i) = true

mutual
/-- **`compile_filter_to_bitmap` is exact for every filter tree** (whenever it compiles). -/
theorem compile_correct (x : MetaIndex) (V : SlotView) (h : IdxInv parse x V)
    (hu : ∀ i, UniqueKeys (V.md i)) :
    ∀ (f : Filter) (b : List Nat), compile parse x f = some b →
      ∀ i, i ∈ b ↔ V.live i = true ∧ matchesF parse f (V.md i) = true
  | .none, b, hc, i => by
    simp only [compile, Option.some.injEq] at hc; subst hc
    simp [h.alive i, matchesF]
  | .exact k v, b, hc, i => by
    simp only [compile, Option.some.injEq] at hc; subst hc
    simp only [mem_slotsOf, beq_iff_eq, matchesF]
    constructor
    · rintro ⟨t, hm, rfl⟩
      have := (h.kv (k, v) i).mp hm
      exact ⟨this.1, (get_eq_some_iff _ (hu i) k v).mpr this.2⟩
    · rintro ⟨hl, hg⟩
      exact ⟨(k, v), (h.kv (k, v) i).mpr ⟨hl, (get_eq_some_iff _ (hu i) k v).mp hg⟩, rfl⟩
  | .inMatch k vs, b, hc, i => by
    simp only [compile, Option.some.injEq] at hc; subst hc
    simp only [mem_slotsOf, Bool.and_eq_true, beq_iff_eq, matchesF]
    constructor
    · rintro ⟨⟨k', v⟩, hm, rfl, hv⟩
      have := (h.kv (k', v) i).mp hm
      refine ⟨this.1, ?_⟩
      rw [(get_eq_some_iff _ (hu i) k' v).mpr this.2]
      exact hv
    · rintro ⟨hl, hm⟩
      cases hg : (V.md i).get k with
      | none => rw [hg] at hm; cases hm
      | some v =>
        rw [hg] at hm
        exact ⟨(k, v), (h.kv (k, v) i).mpr ⟨hl, (get_eq_some_iff _ (hu i) k v).mp hg⟩, rfl, hm⟩
  | .range k bd, b, hc, i => by
    simp only [compile, Option.some.injEq] at hc; subst hc
    simp only [matchesF]
    exact compileRange_correct parse hp x V h hu k bd i
  | .and [], b, hc, i => by
    simp only [compile, Option.some.injEq] at hc; subst hc
    simp [h.alive i, matchesF, allF]
  | .and (f :: fs), b, hc, i => by
    simp only [compile] at hc
    split at hc
    · cases hc
    · rename_i acc hacc
      have h1 := compile_correct x V h hu f acc hacc
      have h2 := compileAnd_correct x V h hu fs acc b (fun j hj => ((h1 j).mp hj).1) hc i
      rw [h2, h1 i]
      simp only [matchesF, allF, Bool.and_eq_true]
      constructor
      · rintro ⟨⟨hl, hm⟩, ha⟩; exact ⟨hl, hm, ha⟩
      · rintro ⟨hl, hm, ha⟩; exact ⟨⟨hl, hm⟩, ha⟩
  | .or fs, b, hc, i => by
    simp only [compile] at hc
    have := compileOr_correct x V h hu fs [] b hc i
    rw [this]
    simp only [List.not_mem_nil, false_or, matchesF]
  | .not none, b, hc, i => by simp [compile] at hc
  | .not (some f), b, hc, i => by
    simp only [compile] at hc
    split at hc
    · cases hc
    · rename_i sb hsb
      simp only [Option.some.injEq] at hc; subst hc
      have h1 := compile_correct x V h hu f sb hsb i
      simp only [List.mem_filter, h.alive i, Bool.not_eq_true', List.contains_eq_mem,
        decide_eq_false_iff_not, matchesF, Bool.not_eq_true']
      constructor
      · rintro ⟨hl, hn⟩
        refine ⟨hl, ?_⟩
        cases hm : matchesF parse f (V.md i) with
        | false => rfl
        | true => exact absurd (h1.mpr ⟨hl, hm⟩) hn
      · rintro ⟨hl, hm⟩
        exact ⟨hl, fun hin => by rw [(h1.mp hin).2] at hm; cases hm⟩
theorem compileAnd_correct (x : MetaIndex) (V : SlotView) (h : IdxInv parse x V)
    (hu : ∀ i, UniqueKeys (V.md i)) :
    ∀ (fs : List Filter) (acc b : List Nat), (∀ j ∈ acc, V.live j = true) →
      compileAnd parse x acc fs = some b →
      ∀ i, i ∈ b ↔ i ∈ acc ∧ allF parse fs (V.md i) = true
  | [], acc, b, _, hc, i => by
    simp only [compileAnd, Option.some.injEq] at hc; subst hc
    simp [allF]
  | f :: fs, acc, b, hacc, hc, i => by
    simp only [compileAnd] at hc
    split at hc
    · cases hc
    · rename_i fb hfb
      have h1 := compile_correct x V h hu f fb hfb i
      have h2 := compileAnd_correct x V h hu fs _ b
        (fun j hj => hacc j (List.mem_filter.mp hj).1) hc i
      rw [h2]
      simp only [List.mem_filter, List.contains_eq_mem, decide_eq_true_eq, allF, Bool.and_eq_true]
      constructor
      · rintro ⟨⟨ha, hf⟩, hr⟩; exact ⟨ha, (h1.mp hf).2, hr⟩
      · rintro ⟨ha, hm, hr⟩
        exact ⟨⟨ha, h1.mpr ⟨hacc i ha, hm⟩⟩, hr⟩
theorem compileOr_correct (x : MetaIndex) (V : SlotView) (h : IdxInv parse x V)
    (hu : ∀ i, UniqueKeys (V.md i)) :
    ∀ (fs : List Filter) (acc b : List Nat), compileOr parse x acc fs = some b →
      ∀ i, i ∈ b ↔ i ∈ acc ∨ (V.live i = true ∧ anyF parse fs (V.md i) = true)
  | [], acc, b, hc, i => by
    simp only [compileOr, Option.some.injEq] at hc; subst hc
    simp [anyF]
  | f :: fs, acc, b, hc, i => by
    simp only [compileOr] at hc
    split at hc
    · cases hc
    · rename_i fb hfb
      have h1 := compile_correct x V h hu f fb hfb i
      have h2 := compileOr_correct x V h hu fs _ b hc i
      rw [h2]
      simp only [List.mem_append, anyF, Bool.or_eq_true]
      rw [h1]
      constructor
      · rintro ((ha | ⟨hl, hm⟩) | ⟨hl, hr⟩)
        · exact Or.inl ha
        · exact Or.inr ⟨hl, Or.inl hm⟩
        · exact Or.inr ⟨hl, Or.inr hr⟩
      · rintro (ha | ⟨hl, hm | hr⟩)
        · exact Or.inl (Or.inl ha)
        · exact Or.inl (Or.inr ⟨hl, hm⟩)
        · exact Or.inr ⟨hl, hr⟩
end

end
end KyroModel
