/-
BulkLoadHnsw preserves the quota invariant: the reservation of the new ids minus the released part
equals the number of documents that actually appeared.
-/
import KyroModel.Lemmas.TenantInv

namespace KyroModel.Srv
open KyroModel

def keysOf (docs : List (Nat × Doc)) : List Nat := docs.map (·.1)

def inRange (t : Tn) (g : Nat) : Bool := g / limit32 == t.idx

theorem mem_dedupNat (l : List Nat) (x : Nat) : x ∈ dedupNat l ↔ x ∈ l := by
  induction l with
  | nil => simp [dedupNat]
  | cons a rest ih =>
    unfold dedupNat
    split
    · rename_i hc
      rw [ih]
      constructor
      · exact fun h => List.mem_cons_of_mem _ h
      · intro h
        rcases List.mem_cons.mp h with rfl | h
        · simpa using hc
        · exact h
    · simp only [List.mem_cons, ih]

theorem nodup_dedupNat (l : List Nat) : (dedupNat l).Nodup := by
  induction l with
  | nil => exact List.nodup_nil
  | cons a rest ih =>
    unfold dedupNat
    split
    · exact ih
    · rename_i hc
      rw [List.nodup_cons]
      refine ⟨?_, ih⟩
      rw [mem_dedupNat]
      simpa using hc

theorem mem_keys_aset (g : Nat) (d : Doc) (docs : List (Nat × Doc)) (x : Nat) :
    x ∈ keysOf (aset g d docs) ↔ x = g ∨ x ∈ keysOf docs := by
  unfold keysOf aset
  simp only [List.map_cons, List.mem_cons]
  constructor
  · rintro (h | h)
    · exact Or.inl h
    · obtain ⟨p, hp, rfl⟩ := List.mem_map.mp h
      exact Or.inr (List.mem_map.mpr ⟨p, mem_aerase g docs p hp, rfl⟩)
  · rintro (h | h)
    · exact Or.inl h
    · by_cases e : x = g
      · exact Or.inl e
      · obtain ⟨p, hp, rfl⟩ := List.mem_map.mp h
        refine Or.inr (List.mem_map.mpr ⟨p, ?_, rfl⟩)
        simp only [aerase, List.mem_filter, ne_eq, decide_eq_true_eq]
        exact ⟨hp, e⟩

theorem isSome_iff_mem_keys (g : Nat) (docs : List (Nat × Doc)) :
    (alookup g docs).isSome = true ↔ g ∈ keysOf docs := by
  constructor
  · intro h
    obtain ⟨d, hd⟩ := Option.isSome_iff_exists.mp h
    exact mem_keys_of_alookup g docs d hd
  · intro h
    cases hl : alookup g docs with
    | some _ => rfl
    | none =>
      exfalso
      -- a present key is found
      have : ∀ (l : List (Nat × Doc)), g ∈ l.map (·.1) → (alookup g l).isSome := by
        intro l
        induction l with
        | nil => intro h; cases h
        | cons q rest ih =>
          obtain ⟨k, v⟩ := q
          intro hm
          by_cases e : k = g
          · simp [e]
          · simp only [alookup_cons, e, if_false]
            simp only [List.map_cons, List.mem_cons] at hm
            rcases hm with hm | hm
            · exact (e hm.symm).elim
            · exact ih hm
      have := this docs h
      rw [hl] at this
      cases this

/-- under the invariant's document clauses the census of a tenant is the number of stored ids in
    its range -/
theorem cnt_eq_range {ts : List Tn} (hts : Tenants ts) (docs : List (Nat × Doc))
    (howned : ∀ p ∈ docs, ∃ t ∈ ts, p.1 / limit32 = t.idx ∧ matchT t p.2 = true) {t : Tn} (ht : t ∈ ts) :
    cnt t docs = ((keysOf docs).filter (inRange t)).length := by
  unfold cnt keysOf
  rw [List.filter_map, List.length_map]
  congr 1
  apply List.filter_congr
  intro p hp
  obtain ⟨t0, ht0, h1, h2⟩ := howned p hp
  by_cases e : t0 = t
  · subst e
    simp [h2, inRange, h1]
  · rw [matchT_other hts ht0 ht p.2 h2 e]
    have := idx_ne hts ht0 ht e
    simp only [Function.comp, inRange, h1]
    symm
    simpa using this

structure DocsOk (ts : List Tn) (docs : List (Nat × Doc)) : Prop where
  keys : Keys docs
  owned : ∀ p ∈ docs, ∃ t ∈ ts, p.1 / limit32 = t.idx ∧ matchT t p.2 = true

/-- what `bulk_load_cold_tier` does to the document map when every batch item is stamped by `t` and
    addressed in `t`'s id range -/
theorem loadAll_facts {ts : List Tn} {t : Tn} (ht : t ∈ ts) (B : List (Nat × List Nat × Meta)) (s : S)
    (hB : ∀ b ∈ B, b.1 / limit32 = t.idx ∧ matchT t ⟨b.2.1, b.2.2⟩ = true) (hs : DocsOk ts s.docs) :
    DocsOk ts (loadAll s B).1.docs ∧ (loadAll s B).1.counts = s.counts ∧
    (∀ g, g ∈ keysOf s.docs → g ∈ keysOf (loadAll s B).1.docs) ∧
    (∀ g, g ∈ keysOf (loadAll s B).1.docs → g ∈ keysOf s.docs ∨ g ∈ B.map (·.1)) := by
  induction B generalizing s with
  | nil => exact ⟨hs, rfl, fun _ h => h, fun _ h => Or.inl h⟩
  | cons b rest ih =>
    obtain ⟨g, v, m⟩ := b
    have hb := hB (g, v, m) (List.mem_cons_self ..)
    have hrest : ∀ b ∈ rest, b.1 / limit32 = t.idx ∧ matchT t ⟨b.2.1, b.2.2⟩ = true :=
      fun b hb => hB b (List.mem_cons_of_mem _ hb)
    unfold loadAll
    by_cases hv : v.length = s.dim
    · -- accepted
      have he : engineInsert s g v m = ({ s with docs := aset g ⟨v, m⟩ s.docs }, true) := by
        simp [engineInsert, hv]
      simp only [he]
      have hs' : DocsOk ts ({ s with docs := aset g ⟨v, m⟩ s.docs } : S).docs := by
        refine ⟨keys_aset g _ _ hs.keys, ?_⟩
        intro p hp
        rcases List.mem_cons.mp hp with rfl | hp
        · exact ⟨t, ht, hb.1, hb.2⟩
        · exact hs.owned p (mem_aerase g _ p hp)
      obtain ⟨h1, h2, h3, h4⟩ := ih { s with docs := aset g ⟨v, m⟩ s.docs } hrest hs'
      refine ⟨h1, h2, ?_, ?_⟩
      · intro x hx
        exact h3 x ((mem_keys_aset g _ _ x).mpr (Or.inr hx))
      · intro x hx
        rcases h4 x hx with h | h
        · rcases (mem_keys_aset g _ _ x).mp h with rfl | h
          · exact Or.inr (List.mem_cons_self ..)
          · exact Or.inl h
        · exact Or.inr (List.mem_cons_of_mem _ h)
    · have he : engineInsert s g v m = (s, false) := by simp [engineInsert, hv]
      simp only [he]
      obtain ⟨h1, h2, h3, h4⟩ := ih s hrest hs
      refine ⟨h1, h2, h3, ?_⟩
      intro x hx
      rcases h4 x hx with h | h
      · exact Or.inl h
      · exact Or.inr (List.mem_cons_of_mem _ h)

/-- counting: the ids in a tenant's range after the load = those before + the fresh ones in range -/
theorem range_split (K R : List Nat) (hK : K.Nodup) (hR : R.Nodup) (hsub : ∀ g, g ∈ K → g ∈ R)
    (p : Nat → Bool) :
    (R.filter p).length = (K.filter p).length + ((R.filter fun g => !K.contains g).filter p).length := by
  have hperm : ((R.filter fun g => K.contains g) ++ (R.filter fun g => !K.contains g)).Perm R :=
    List.filter_append_perm _ R
  have hK' : (R.filter fun g => K.contains g).Perm K := by
    apply (List.perm_ext_iff_of_nodup (hR.sublist List.filter_sublist) hK).mpr
    intro x
    simp only [List.mem_filter, List.contains_iff_mem]
    exact ⟨fun h => h.2, fun h => ⟨hsub x h, h⟩⟩
  have h1 := (hperm.filter p).length_eq
  rw [List.filter_append, List.length_append] at h1
  rw [← h1, (hK'.filter p).length_eq]

theorem not_contains_iff (l : List Nat) (x : Nat) : (!l.contains x) = true ↔ x ∉ l := by simp

theorem filter_all_length (l : List Nat) (p : Nat → Bool) (h : ∀ x ∈ l, p x = true) : (l.filter p).length = l.length := by
  rw [List.filter_eq_self.mpr h]

theorem filter_none_length (l : List Nat) (p : Nat → Bool) (h : ∀ x ∈ l, p x = false) : (l.filter p).length = 0 := by
  rw [List.filter_eq_nil_iff.mpr (fun x hx => by simp [h x hx])]
  rfl

/-- **BulkLoadHnsw preserves the quota invariant.** -/
theorem bulkLoad_inv {ts : List Tn} (hts : Tenants ts) {s : S} (hi : Inv ts s) {t : Tn} (ht : t ∈ ts)
    (items : List Item) : Inv ts (bulkLoad s t items).1 := by
  unfold bulkLoad
  simp only
  generalize hBdef : ((items.filter fun it => !(decide (it.lid < 1) || it.vec.isEmpty) && (gid t it.lid).isSome).map
      fun it => ((gid t it.lid).getD 0, it.vec, stamp t it.md it.ns)) = B
  have hB : ∀ b ∈ B, b.1 / limit32 = t.idx ∧ matchT t ⟨b.2.1, b.2.2⟩ = true := by
    intro b hb
    rw [← hBdef] at hb
    obtain ⟨it, hit, rfl⟩ := List.mem_map.mp hb
    simp only [List.mem_filter, Bool.and_eq_true] at hit
    obtain ⟨g, hg⟩ := Option.isSome_iff_exists.mp hit.2.2
    refine ⟨?_, by simp [matchT, stamp_idx]⟩
    simp only [hg, Option.getD_some]
    exact gid_div t it.lid g hg
  split
  · exact hi
  generalize hNdef : dedupNat ((B.map (·.1)).filter fun g => !(alookup g s.docs).isSome) = newIds
  split
  · exact hi
  rename_i hq
  -- the state the batch is loaded into: same documents, the new ids reserved
  generalize hs1 : (if newIds.isEmpty = true then s else setCount s t (count s t + newIds.length)) = s1
  have hs1docs : s1.docs = s.docs := by rw [← hs1]; split <;> rfl
  have hs1t : count s1 t = count s t + newIds.length := by
    rw [← hs1]
    split
    · rename_i he
      have : newIds = [] := by simpa using he
      simp [this]
    · exact count_setCount_self _ _ _
  have hs1o : ∀ t' ∈ ts, t' ≠ t → count s1 t' = count s t' := by
    intro t' ht' hne
    rw [← hs1]
    split
    · rfl
    · exact count_setCount_ne _ _ _ _ (idx_ne hts ht' ht hne)
  obtain ⟨hok, hcounts, hmono, hfresh⟩ := loadAll_facts ht B s1 hB (hs1docs ▸ ⟨hi.keys, hi.owned⟩)
  generalize hr : (loadAll s1 B).1 = r at hok hcounts hmono hfresh ⊢
  rw [hs1docs] at hmono hfresh
  have hrcount : ∀ t', count r t' = count s1 t' := by intro t'; unfold count; rw [hcounts]
  -- the fresh ids
  have hK : (keysOf s.docs).Nodup := hi.keys
  have hR : (keysOf r.docs).Nodup := hok.keys
  have hFreshIn : ∀ x ∈ (keysOf r.docs).filter (fun g => !(keysOf s.docs).contains g), x ∈ B.map (·.1) := by
    intro x hx
    simp only [List.mem_filter, not_contains_iff] at hx
    rcases hfresh x hx.1 with h | h
    · exact (hx.2 h).elim
    · exact h
  have hFreshRange : ∀ x ∈ (keysOf r.docs).filter (fun g => !(keysOf s.docs).contains g), x / limit32 = t.idx := by
    intro x hx
    obtain ⟨b, hb, rfl⟩ := List.mem_map.mp (hFreshIn x hx)
    exact (hB b hb).1
  have hNow : ((keysOf r.docs).filter fun g => !(keysOf s.docs).contains g).length =
      (newIds.filter fun g => (alookup g r.docs).isSome).length := by
    apply List.Perm.length_eq
    apply (List.perm_ext_iff_of_nodup (hR.sublist List.filter_sublist)
      ((hNdef ▸ nodup_dedupNat _).sublist List.filter_sublist)).mpr
    intro x
    rw [← hNdef]
    simp only [List.mem_filter, mem_dedupNat, not_contains_iff, isSome_iff_mem_keys]
    constructor
    · intro hx
      have hb := hFreshIn x (by simp only [List.mem_filter, not_contains_iff]; exact hx)
      refine ⟨⟨hb, ?_⟩, hx.1⟩
      cases h : (alookup x s.docs).isSome
      · rfl
      · exact (hx.2 ((isSome_iff_mem_keys x s.docs).mp h)).elim
    · rintro ⟨⟨_, h2⟩, h3⟩
      refine ⟨h3, ?_⟩
      intro hm
      rw [(isSome_iff_mem_keys x s.docs).mpr hm] at h2
      cases h2
  generalize hnow : (newIds.filter fun g => (alookup g r.docs).isSome).length = now at hNow ⊢
  have hnowle : now ≤ newIds.length := by rw [← hnow]; exact List.length_filter_le _ _
  refine ⟨?_, ?_, ?_, ?_⟩
  · rw [docs_noteInserts, docs_decCount]; exact hok.keys
  · intro p hp
    rw [docs_noteInserts, docs_decCount] at hp
    exact hok.owned p hp
  · intro t' ht'
    rw [count_noteInserts, docs_noteInserts, docs_decCount, cnt_eq_range hts r.docs hok.owned ht',
      range_split (keysOf s.docs) (keysOf r.docs) hK hR hmono (inRange t'),
      ← cnt_eq_range hts s.docs hi.owned ht', ← hi.exact t' ht']
    by_cases he : t' = t
    · subst he
      rw [count_decCount_self, hrcount, hs1t,
        filter_all_length _ _ (fun x hx => by simp [inRange, hFreshRange x hx]), hNow]
      omega
    · rw [count_decCount_ne _ _ _ _ (idx_ne hts ht' ht he), hrcount, hs1o t' ht' he,
        filter_none_length _ _ (fun x hx => by
          have := idx_ne hts ht ht' (fun e => he e.symm)
          simp only [inRange, hFreshRange x hx]
          simpa using this)]
      rfl
  · intro t' ht'
    rw [count_noteInserts]
    by_cases he : t' = t
    · subst he
      rw [count_decCount_self, hrcount, hs1t]
      have : ¬ t'.maxv < count s t' + newIds.length := hq
      omega
    · rw [count_decCount_ne _ _ _ _ (idx_ne hts ht' ht he), hrcount, hs1o t' ht' he]
      exact hi.bounded t' ht'

end KyroModel.Srv
