/-
The canonical check and what each read leg can return.  No hypothesis on cache / mirror
contents anywhere in this file: they may hold arbitrary (stale, corrupted, foreign) entries.
-/
import KyroModel.Tiered.Ops

namespace KyroModel
section
variable {D : Type} [DecidableEq D] (digest : Vec → D)

/-- The single lemma everything rests on: a positive canonical check means the served payload
    *is* the canonical vector (given an injective digest). -/
theorem canonicalState_matched (hinj : Function.Injective digest) (cold : Cold) (id : Nat)
    (v : Vec) (t : Token D) (h : canonicalState digest cold id v t = .matched) :
    ∃ d, alookup id cold = some d ∧ d.vec = v ∧ coldToken digest d = t := by
  unfold canonicalState at h
  split at h
  · cases h
  · rename_i d hd
    split at h
    · cases h
    · rename_i htok
      split at h
      · cases h
      · rename_i hdig
        refine ⟨d, hd, ?_, by simpa using htok⟩
        have htok' : coldToken digest d = t := by simpa using htok
        have : digest v = digest d.vec := by
          have h1 : digest v = t.dig := by simpa using hdig
          rw [h1, ← htok']; rfl
        exact (hinj this).symm

/-- what a leg may answer: nothing, or the canonical vector of `id` -/
def ServesCanonical (cold : Cold) (id : Nat) (r : Option Vec) : Prop :=
  ∀ v, r = some v → (alookup id cold).map (·.vec) = some v

variable (hinj : Function.Injective digest)
include hinj

theorem queryL1_spec (s : TState D) (id : Nat) :
    (queryL1 digest s id).1.cold = s.cold ∧ ServesCanonical s.cold id (queryL1 digest s id).2 := by
  unfold queryL1
  simp only
  split
  · rename_i c hc
    split
    · rename_i hm
      refine ⟨rfl, ?_⟩
      intro v hv
      obtain ⟨d, hd, hvec, _⟩ := canonicalState_matched digest hinj _ _ _ _ hm
      simp only [Option.some.injEq] at hv
      simp [hd, hvec, hv]
    · exact ⟨rfl, fun v hv => by cases hv⟩
  · exact ⟨rfl, fun v hv => by cases hv⟩

theorem queryL2_spec (s : TState D) (id : Nat) (a : Bool) :
    (queryL2 digest s id a).1.cold = s.cold ∧ ServesCanonical s.cold id (queryL2 digest s id a).2 := by
  unfold queryL2
  split
  · rename_i h hh
    split
    · rename_i hm
      refine ⟨by unfold admitTo; split <;> rfl, ?_⟩
      intro v hv
      obtain ⟨d, hd, hvec, _⟩ := canonicalState_matched digest hinj _ _ _ _ hm
      simp only [Option.some.injEq] at hv
      simp [hd, hvec, hv]
    · exact ⟨rfl, fun v hv => by cases hv⟩
    · exact ⟨rfl, fun v hv => by cases hv⟩
    · exact ⟨rfl, fun v hv => by cases hv⟩
  · exact ⟨rfl, fun v hv => by cases hv⟩

omit hinj in
theorem queryL3_spec (s : TState D) (id : Nat) (a : Bool) :
    (queryL3 digest s id a).1.cold = s.cold ∧
    (queryL3 digest s id a).2 = (alookup id s.cold).map (·.vec) := by
  unfold queryL3
  split
  · rename_i d hd
    exact ⟨by unfold admitTo; split <;> rfl, by simp [hd]⟩
  · rename_i hd
    exact ⟨rfl, by simp [hd]⟩

theorem hotLeg_spec (s : TState D) (id : Nat) :
    (hotLeg digest s id).1.cold = s.cold ∧ ServesCanonical s.cold id (hotLeg digest s id).2 := by
  unfold hotLeg
  split
  · split
    · rename_i hm
      refine ⟨rfl, ?_⟩
      intro v hv
      obtain ⟨d, hd, hvec, _⟩ := canonicalState_matched digest hinj _ _ _ _ hm
      simp only [Option.some.injEq] at hv
      simp [hd, hvec, hv]
    · exact ⟨rfl, fun v hv => by cases hv⟩
    · exact ⟨rfl, fun v hv => by cases hv⟩
    · exact ⟨rfl, fun v hv => by cases hv⟩
  · exact ⟨rfl, fun v hv => by cases hv⟩

theorem peekLeg_spec (s : TState D) (id : Nat) :
    (peekLeg digest s id).1.cold = s.cold ∧ ServesCanonical s.cold id (peekLeg digest s id).2 := by
  unfold peekLeg
  split
  · split
    · rename_i hm
      refine ⟨rfl, ?_⟩
      intro v hv
      obtain ⟨d, hd, hvec, _⟩ := canonicalState_matched digest hinj _ _ _ _ hm
      simp only [Option.some.injEq] at hv
      simp [hd, hvec, hv]
    · exact ⟨rfl, fun v hv => by cases hv⟩
  · exact ⟨rfl, fun v hv => by cases hv⟩

/-- `query_with_source` returns the canonical vector (or not-found) and leaves the canonical
    store untouched. -/
theorem query_spec (s : TState D) (id : Nat) (a : Bool) :
    (query digest s id a).1.cold = s.cold ∧
    (query digest s id a).2.map (·.1) = (alookup id s.cold).map (·.vec) := by
  have h1 := queryL1_spec digest hinj s id
  unfold query
  generalize queryL1 digest s id = r1 at h1 ⊢
  obtain ⟨s1, o1⟩ := r1
  cases o1 with
  | some v => exact ⟨h1.1, by simpa using (h1.2 v rfl).symm⟩
  | none =>
    simp only at h1 ⊢
    have h2 := queryL2_spec digest hinj s1 id a
    generalize queryL2 digest s1 id a = r2 at h2 ⊢
    obtain ⟨s2, o2⟩ := r2
    cases o2 with
    | some v =>
      refine ⟨h2.1.trans h1.1, ?_⟩
      have := h2.2 v rfl
      rw [h1.1] at this
      simpa using this.symm
    | none =>
      simp only at h2 ⊢
      have h3 := queryL3_spec digest s2 id a
      generalize queryL3 digest s2 id a = r3 at h3 ⊢
      obtain ⟨s3, o3⟩ := r3
      simp only at h3
      have hc : s2.cold = s.cold := h2.1.trans h1.1
      cases o3 with
      | some v => exact ⟨h3.1.trans hc, by rw [← hc, ← h3.2]; rfl⟩
      | none => exact ⟨h3.1.trans hc, by rw [← hc, ← h3.2]; rfl⟩

theorem docWithMeta_spec (s : TState D) (id : Nat) :
    (docWithMeta digest s id).1.cold = s.cold ∧
    (docWithMeta digest s id).2 = (alookup id s.cold).map (fun d => (d.vec, d.md)) := by
  unfold docWithMeta
  split
  · rename_i d0 hd0
    have h1 := hotLeg_spec digest hinj s id
    generalize hotLeg digest s id = r at h1 ⊢
    obtain ⟨s1, o⟩ := r
    cases o with
    | some v =>
      refine ⟨h1.1, ?_⟩
      have := h1.2 v rfl
      rw [hd0] at this
      simp only [Option.map_some, Option.some.injEq] at this
      simp [hd0, this]
    | none =>
      simp only at h1 ⊢
      rw [h1.1, hd0]
      exact ⟨h1.1, rfl⟩
  · rename_i hd0
    exact ⟨rfl, by simp [hd0]⟩

theorem embAware_spec (s : TState D) (id : Nat) :
    (embAware digest s id).1.cold = s.cold ∧
    (embAware digest s id).2 = (alookup id s.cold).map (·.vec) := by
  have h1 := peekLeg_spec digest hinj s id
  unfold embAware
  generalize peekLeg digest s id = r1 at h1 ⊢
  obtain ⟨s1, o1⟩ := r1
  cases o1 with
  | some v => exact ⟨h1.1, (h1.2 v rfl).symm⟩
  | none =>
    simp only at h1 ⊢
    have h2 := hotLeg_spec digest hinj s1 id
    generalize hotLeg digest s1 id = r2 at h2 ⊢
    obtain ⟨s2, o2⟩ := r2
    cases o2 with
    | some v =>
      refine ⟨h2.1.trans h1.1, ?_⟩
      have := h2.2 v rfl
      rw [h1.1] at this
      exact this.symm
    | none =>
      simp only at h2 ⊢
      exact ⟨h2.1.trans h1.1, by rw [h2.1, h1.1]⟩

theorem bulkOne_spec (s : TState D) (id : Nat) :
    (bulkOne digest s id).1.cold = s.cold ∧
    ∀ x, (bulkOne digest s id).2 = some x →
      (alookup id s.cold).map (fun d => (d.vec, d.md)) = some (x.1, x.2.1) := by
  unfold bulkOne
  split
  · split
    · rename_i hm
      obtain ⟨d, hd, hvec, _⟩ := canonicalState_matched digest hinj _ _ _ _ hm
      rw [hd]
      refine ⟨rfl, ?_⟩
      intro x hx
      simp only [Option.some.injEq] at hx
      subst hx
      simp [hvec]
    · exact ⟨rfl, fun x hx => by cases hx⟩
    · exact ⟨rfl, fun x hx => by cases hx⟩
    · exact ⟨rfl, fun x hx => by cases hx⟩
  · exact ⟨rfl, fun x hx => by cases hx⟩

/-- canonical answer of a bulk query for one id, without the tier tag -/
def bulkSpec (cold : Cold) (id : Nat) : Option (Vec × Meta) :=
  (alookup id cold).map fun d => (d.vec, d.md)

def dropTier (r : Option (Vec × Meta × Tier)) : Option (Vec × Meta) := r.map fun x => (x.1, x.2.1)

theorem bulkPass_spec (ids : List Nat) (s : TState D) :
    (bulkPass digest s ids).1.cold = s.cold ∧
    (bulkFill s.cold ids (bulkPass digest s ids).2).map dropTier = ids.map (bulkSpec s.cold) := by
  induction ids generalizing s with
  | nil => exact ⟨rfl, rfl⟩
  | cons i rest ih =>
    unfold bulkPass
    have h1 := bulkOne_spec digest hinj s i
    generalize bulkOne digest s i = r at h1 ⊢
    obtain ⟨s1, o⟩ := r
    simp only at h1 ⊢
    have h2 := ih s1
    generalize bulkPass digest s1 rest = r2 at h2 ⊢
    obtain ⟨s2, rs⟩ := r2
    simp only at h2 ⊢
    refine ⟨h2.1.trans h1.1, ?_⟩
    simp only [bulkFill, List.map_cons]
    rw [h1.1] at h2
    rw [h2.2]
    congr 1
    cases o with
    | some x =>
      have := h1.2 x rfl
      simp [dropTier, bulkSpec, this]
    | none =>
      simp only [dropTier, bulkSpec]
      cases alookup i s.cold <;> simp

theorem bulkQuery_spec (s : TState D) (ids : List Nat) :
    (bulkQuery digest s ids).1.cold = s.cold ∧
    (bulkQuery digest s ids).2.map dropTier = ids.map (bulkSpec s.cold) := by
  unfold bulkQuery
  have := bulkPass_spec digest hinj ids s
  generalize bulkPass digest s ids = r at this ⊢
  obtain ⟨s1, fp⟩ := r
  simp only at this ⊢
  exact ⟨this.1, by rw [this.1]; exact this.2⟩

end
end KyroModel
