/-
The engine invariant holds after every history.
-/
import KyroModel.Persist.Ops
import KyroModel.Lemmas.PersistEngine

namespace KyroModel

theorem einv_pStep (e : PEng) (d : Disk) (op : POp) (h : EInv e d) (hv : op.valid) :
    EInv (pStep e d op).1 (d.applyAll (pStep e d op).2.1) := by
  cases op with
  | insert id v m acc fl fd => exact (pInsert_spec e d id v m acc fl fd h hv).1
  | delete id fl => exact (pDelete_spec e d id fl h).1
  | batchDelete ids fl => exact (pBatchDelete_spec e d ids fl h).1
  | update id md fl => exact (pUpdate_spec e d id md fl h).1
  | snapshot => exact (pSnapshot_spec e d h).1
  | restart =>
    obtain ⟨e', as, hr, _, hinv, _⟩ := pRestart_spec e d h
    simp only [pStep, hr]
    exact hinv
  | ioFailed n =>
    simp only [pStep, Disk.applyAll, List.foldl_nil]
    exact ⟨h.dinv.mono (Nat.le_add_right _ _), h.active, h.walNames, h.snapNames⟩

theorem einv_pRun (cfg : PCfg) (ops : List POp) (hv : ∀ op ∈ ops, op.valid) :
    EInv (pRun cfg ops).1 (pRun cfg ops).2 := by
  unfold pRun
  suffices h : ∀ (s : PEng × Disk), EInv s.1 s.2 →
      EInv (ops.foldl (fun (s : PEng × Disk) op =>
        ((pStep s.1 s.2 op).1, s.2.applyAll (pStep s.1 s.2 op).2.1)) s).1
        (ops.foldl (fun (s : PEng × Disk) op =>
        ((pStep s.1 s.2 op).1, s.2.applyAll (pStep s.1 s.2 op).2.1)) s).2 from
    h _ (pInit_spec cfg)
  induction ops with
  | nil => intro s h; exact h
  | cons op rest ih =>
    intro s h
    rw [List.foldl_cons]
    apply ih (fun o ho => hv o (List.mem_cons_of_mem _ ho))
    exact einv_pStep s.1 s.2 op h (hv op (List.mem_cons_self ..))

/-- recovery outcome at a disk satisfying `Rec` -/
theorem recover_of_Rec (d : Disk) (docs : Docs) (h : Rec d docs) :
    ∃ r mx, recover d = .ok (r, mx) ∧ MapEq r docs := by
  obtain ⟨ns, hd⟩ := h
  obtain ⟨r, mx, h1, h2, _⟩ := recover_of_DInv d docs ns hd
  exact ⟨r, mx, h1, h2⟩

end KyroModel
