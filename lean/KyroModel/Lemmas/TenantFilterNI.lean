/-
Non-interference for `BatchDelete` by filter (C10).  Unlike the id-addressed RPCs, a filter delete
walks the WHOLE shared document list, so output consistency needs the reachable-state invariant
`Inv` (unique ids, every document stored in the id range of the tenant whose index it carries):
under it the set of documents a filter of tenant `a` selects is a function of `a`'s view only.
-/
import KyroModel.Lemmas.TenantNI
import KyroModel.Theorems.C14

namespace KyroModel.Srv
open KyroModel

/-! ### association lists with unique keys -/

theorem alookup_iff_mem (docs : List (Nat × Doc)) (hk : Keys docs) (g : Nat) (d : Doc) :
    alookup g docs = some d ↔ (g, d) ∈ docs := by
  induction docs with
  | nil => simp
  | cons p rest ih =>
    obtain ⟨k, v⟩ := p
    unfold Keys at hk
    rw [List.map_cons, List.nodup_cons] at hk
    rw [alookup_cons]
    by_cases e : k = g
    · subst e
      simp only [if_true]
      constructor
      · intro h; cases h; exact List.mem_cons_self ..
      · intro h
        rcases List.mem_cons.mp h with h | h
        · cases h; rfl
        · exact absurd (List.mem_map.mpr ⟨(k, d), h, rfl⟩) hk.1
    · simp only [e, if_false]
      rw [ih hk.2]
      constructor
      · exact List.mem_cons_of_mem _
      · intro h
        rcases List.mem_cons.mp h with h | h
        · cases h; exact absurd rfl e
        · exact h

/-! ### `deleteMany`, order-free -/

theorem deleteMany_lookup (gs : List Nat) : ∀ (s : S) (g' : Nat),
    alookup g' (deleteMany s gs).1.docs = if g' ∈ gs then none else alookup g' s.docs := by
  induction gs with
  | nil => intro s g'; simp [deleteMany]
  | cons g rest ih =>
    intro s g'
    unfold deleteMany
    by_cases hs : (alookup g s.docs).isSome = true
    · simp only [hs, if_true]
      rw [ih]
      by_cases e : g' = g
      · subst e; simp [alookup_aerase_self]
      · simp [e, alookup_aerase_ne g g' _ e]
    · simp only [hs, if_false, Bool.false_eq_true]
      rw [ih]
      by_cases e : g' = g
      · subst e
        have hn : alookup g' s.docs = none := by
          cases h : alookup g' s.docs with
          | none => rfl
          | some d => rw [h] at hs; simp at hs
        simp [hn]
      · simp [e]

theorem deleteMany_frame (gs : List Nat) : ∀ (s : S),
    (deleteMany s gs).1.dim = s.dim ∧ (deleteMany s gs).1.counts = s.counts := by
  induction gs with
  | nil => intro s; exact ⟨rfl, rfl⟩
  | cons g rest ih =>
    intro s
    unfold deleteMany
    by_cases hs : (alookup g s.docs).isSome = true
    · simp only [hs, if_true]
      exact ih { s with docs := aerase g s.docs }
    · simp only [hs, if_false, Bool.false_eq_true]
      exact ih s

/-- over distinct ids the deleted count is the number of ids that were present -/
theorem deleteMany_count (gs : List Nat) (hn : gs.Nodup) : ∀ (s : S),
    (deleteMany s gs).2 = (gs.filter fun g => (alookup g s.docs).isSome).length := by
  induction gs with
  | nil => intro s; rfl
  | cons g rest ih =>
    intro s
    rw [List.nodup_cons] at hn
    have hrest : ∀ (docs' : List (Nat × Doc)), (∀ x ∈ rest, alookup x docs' = alookup x s.docs) →
        (rest.filter fun x => (alookup x docs').isSome) = (rest.filter fun x => (alookup x s.docs).isSome) := by
      intro docs' h
      apply List.filter_congr
      intro x hx
      rw [h x hx]
    unfold deleteMany
    by_cases hs : (alookup g s.docs).isSome = true
    · simp only [hs, if_true]
      rw [ih hn.2, List.filter_cons_of_pos (by simpa using hs), List.length_cons]
      congr 2
      exact hrest _ (fun x hx => alookup_aerase_ne g x _ (fun e => hn.1 (e ▸ hx)))
    · simp only [hs, if_false, Bool.false_eq_true]
      rw [ih hn.2, List.filter_cons_of_neg (by simpa using hs)]

/-! ### what a filter of tenant `t` selects -/

/-- the global ids `BatchDelete` by filter removes -/
def selected (parse : String → Option Nat) (s : S) (t : Tn) (f : Filter) (ns : String) : List Nat :=
  (s.docs.filter fun p => visible t ns p.2.md && matchesF parse f p.2.md).map (·.1)

theorem mem_selected (parse : String → Option Nat) {s : S} (hk : Keys s.docs) (t : Tn) (f : Filter) (ns : String)
    (g : Nat) : g ∈ selected parse s t f ns ↔
      ∃ d, alookup g s.docs = some d ∧ (visible t ns d.md && matchesF parse f d.md) = true := by
  unfold selected
  simp only [List.mem_map, List.mem_filter]
  constructor
  · rintro ⟨p, ⟨hp, hP⟩, rfl⟩
    exact ⟨p.2, (alookup_iff_mem _ hk p.1 p.2).mpr hp, hP⟩
  · rintro ⟨d, hd, hP⟩
    exact ⟨(g, d), ⟨(alookup_iff_mem _ hk g d).mp hd, hP⟩, rfl⟩

theorem nodup_selected (parse : String → Option Nat) {s : S} (hk : Keys s.docs) (t : Tn) (f : Filter) (ns : String) :
    (selected parse s t f ns).Nodup := by
  unfold selected
  exact List.Nodup.sublist (List.Sublist.map _ List.filter_sublist) hk

/-- under the invariant, everything a filter of `t` selects lies in `t`'s own id range -/
theorem selected_in_range (parse : String → Option Nat) {ts : List Tn} (hts : Tenants ts) {s : S} (hi : Inv ts s)
    {t : Tn} (ht : t ∈ ts) (f : Filter) (ns : String) :
    ∀ g ∈ selected parse s t f ns, g / limit32 = t.idx := by
  intro g hg
  obtain ⟨d, hd, hP⟩ := (mem_selected parse hi.keys t f ns g).mp hg
  simp only [Bool.and_eq_true] at hP
  have hm : matchT t d = true := C14.visible_matches hP.1
  obtain ⟨t0, ht0, h1, h2⟩ := hi.owned _ ((alookup_iff_mem _ hi.keys g d).mp hd)
  by_cases e : t0 = t
  · rw [← e]; exact h1
  · have := matchT_other hts ht0 ht d h2 e
    rw [this] at hm; cases hm

/-- two states with the same `a`-view select the same ids for a filter of `a` -/
theorem selected_view (parse : String → Option Nat) {ts : List Tn} (hts : Tenants ts) {a : Tn} (ha : a ∈ ts)
    {s1 s2 : S} (h1 : Inv ts s1) (h2 : Inv ts s2) (hv : ViewEq a s1 s2) (f : Filter) (ns : String) (g : Nat) :
    g ∈ selected parse s1 a f ns ↔ g ∈ selected parse s2 a f ns := by
  constructor
  · intro hg
    have hr := selected_in_range parse hts h1 ha f ns g hg
    obtain ⟨d, hd, hP⟩ := (mem_selected parse h1.keys a f ns g).mp hg
    exact (mem_selected parse h2.keys a f ns g).mpr ⟨d, (hv.docs g hr) ▸ hd, hP⟩
  · intro hg
    have hr := selected_in_range parse hts h2 ha f ns g hg
    obtain ⟨d, hd, hP⟩ := (mem_selected parse h2.keys a f ns g).mp hg
    exact (mem_selected parse h1.keys a f ns g).mpr ⟨d, (hv.docs g hr).symm ▸ hd, hP⟩

theorem selected_all_present (parse : String → Option Nat) {s : S} (hk : Keys s.docs) (t : Tn) (f : Filter) (ns : String) :
    ((selected parse s t f ns).filter fun g => (alookup g s.docs).isSome) = selected parse s t f ns := by
  apply List.filter_eq_self.mpr
  intro g hg
  obtain ⟨d, hd, _⟩ := (mem_selected parse hk t f ns g).mp hg
  rw [hd]; rfl

/-! ### output consistency and local respect of the filter delete -/

theorem batchDeleteFilter_eq (parse : String → Option Nat) (s : S) (t : Tn) (f : Filter) (ns : String)
    (hf : mentionsReserved f = false) :
    batchDeleteFilter parse s t f ns =
      (noteDeletes (decCount (deleteMany s (selected parse s t f ns)).1 t (deleteMany s (selected parse s t f ns)).2) t
          (deleteMany s (selected parse s t f ns)).2,
        .ok (deleteMany s (selected parse s t f ns)).2) := by
  unfold batchDeleteFilter selected
  simp [hf]

theorem batchDeleteFilter_view (parse : String → Option Nat) {ts : List Tn} (hts : Tenants ts) {a : Tn} (ha : a ∈ ts)
    {s1 s2 : S} (h1 : Inv ts s1) (h2 : Inv ts s2) (hv : ViewEq a s1 s2) (f : Filter) (ns : String) :
    (batchDeleteFilter parse s1 a f ns).2 = (batchDeleteFilter parse s2 a f ns).2 ∧
      ViewEq a (batchDeleteFilter parse s1 a f ns).1 (batchDeleteFilter parse s2 a f ns).1 := by
  by_cases hf : mentionsReserved f = true
  · have e1 : batchDeleteFilter parse s1 a f ns = (s1, .error .invalidArgument) := by simp [batchDeleteFilter, hf]
    have e2 : batchDeleteFilter parse s2 a f ns = (s2, .error .invalidArgument) := by simp [batchDeleteFilter, hf]
    rw [e1, e2]; exact ⟨rfl, hv⟩
  · have hf' : mentionsReserved f = false := by simpa using hf
    rw [batchDeleteFilter_eq parse s1 a f ns hf', batchDeleteFilter_eq parse s2 a f ns hf']
    have hmem := selected_view parse hts ha h1 h2 hv f ns
    have hn1 := nodup_selected parse h1.keys a f ns
    have hn2 := nodup_selected parse h2.keys a f ns
    have hlen : (selected parse s1 a f ns).length = (selected parse s2 a f ns).length :=
      ((List.perm_ext_iff_of_nodup hn1 hn2).mpr hmem).length_eq
    have c1 : (deleteMany s1 (selected parse s1 a f ns)).2 = (selected parse s1 a f ns).length := by
      rw [deleteMany_count _ hn1, selected_all_present parse h1.keys]
    have c2 : (deleteMany s2 (selected parse s2 a f ns)).2 = (selected parse s2 a f ns).length := by
      rw [deleteMany_count _ hn2, selected_all_present parse h2.keys]
    have hc : (deleteMany s1 (selected parse s1 a f ns)).2 = (deleteMany s2 (selected parse s2 a f ns)).2 := by
      rw [c1, c2, hlen]
    refine ⟨by simp only [hc], ?_, ?_, ?_⟩
    · rw [dim_noteDeletes, dim_decCount, dim_noteDeletes, dim_decCount, (deleteMany_frame _ s1).1,
        (deleteMany_frame _ s2).1]
      exact hv.dim
    · intro g' hg'
      rw [docs_noteDeletes, docs_decCount, docs_noteDeletes, docs_decCount, deleteMany_lookup, deleteMany_lookup]
      by_cases hm : g' ∈ selected parse s1 a f ns
      · rw [if_pos hm, if_pos ((hmem g').mp hm)]
      · rw [if_neg hm, if_neg (fun h => hm ((hmem g').mpr h))]
        exact hv.docs g' hg'
    · have k1 : count (deleteMany s1 (selected parse s1 a f ns)).1 a = count s1 a := by
        unfold count; rw [(deleteMany_frame _ s1).2]
      have k2 : count (deleteMany s2 (selected parse s2 a f ns)).1 a = count s2 a := by
        unfold count; rw [(deleteMany_frame _ s2).2]
      rw [count_noteDeletes, count_decCount_self, count_noteDeletes, count_decCount_self, k1, k2, hc, hv.cnt]

theorem batchDeleteFilter_respects (parse : String → Option Nat) {ts : List Tn} (hts : Tenants ts) {a b : Tn}
    (hb : b ∈ ts) (hab : a.idx ≠ b.idx) {s : S} (hi : Inv ts s) (f : Filter) (ns : String) :
    ViewEq a s (batchDeleteFilter parse s b f ns).1 := by
  by_cases hf : mentionsReserved f = true
  · have e1 : batchDeleteFilter parse s b f ns = (s, .error .invalidArgument) := by simp [batchDeleteFilter, hf]
    rw [e1]; exact ViewEq.refl a s
  · have hf' : mentionsReserved f = false := by simpa using hf
    rw [batchDeleteFilter_eq parse s b f ns hf']
    have hgs : ∀ g ∈ selected parse s b f ns, g / limit32 ≠ a.idx := by
      intro g hg e
      exact hab (e.symm.trans (selected_in_range parse hts hi hb f ns g hg))
    have h1 := deleteMany_respects _ hgs s
    refine ⟨by rw [dim_noteDeletes, dim_decCount]; exact h1.dim, ?_, ?_⟩
    · intro g' hg'
      rw [docs_noteDeletes, docs_decCount]
      exact h1.docs g' hg'
    · rw [count_noteDeletes, count_decCount_ne _ _ _ _ hab]
      exact h1.cnt

/-! ### the request layer with filter deletes -/

inductive ReqF
  | base (r : Req)
  | bdFilter (f : Filter) (ns : String)

def handleF (parse : String → Option Nat) (s : S) (t : Tn) : ReqF → S × Resp
  | .base r => handle s t r
  | .bdFilter f ns => ((batchDeleteFilter parse s t f ns).1, .nat (batchDeleteFilter parse s t f ns).2)

theorem handle_inv {ts : List Tn} (hts : Tenants ts) {s : S} (hi : Inv ts s) {t : Tn} (ht : t ∈ ts) (r : Req) :
    Inv ts (handle s t r).1 := by
  cases r with
  | insert lid v m ns => exact C14.C14_insert_exact hts hi ht lid v m ns
  | delete lid ns => exact C14.C14_delete_exact hts hi ht lid ns
  | update lid m mg ns => exact C14.C14_update_exact hts hi ht lid m mg ns
  | query lid ns => exact hi
  | bulkQuery lids ns => exact hi
  | bdIds lids ns => exact C14.C14_batchDeleteIds_exact hts hi ht lids ns
  | bulkInsert items => exact C14.C14_bulkInsert_exact hts hi ht items
  | bulkLoad items => exact C14.C14_bulkLoad_exact hts hi ht items

theorem handleF_inv (parse : String → Option Nat) {ts : List Tn} (hts : Tenants ts) {s : S} (hi : Inv ts s) {t : Tn}
    (ht : t ∈ ts) (r : ReqF) : Inv ts (handleF parse s t r).1 := by
  cases r with
  | base r => exact handle_inv hts hi ht r
  | bdFilter f ns => exact C14.C14_batchDeleteFilter_exact parse hts hi ht f ns

theorem handleF_view (parse : String → Option Nat) {ts : List Tn} (hts : Tenants ts) {a : Tn} (ha : a ∈ ts)
    {s1 s2 : S} (h1 : Inv ts s1) (h2 : Inv ts s2) (hv : ViewEq a s1 s2) (r : ReqF) :
    (handleF parse s1 a r).2 = (handleF parse s2 a r).2 ∧ ViewEq a (handleF parse s1 a r).1 (handleF parse s2 a r).1 := by
  cases r with
  | base r => exact handle_view hv r
  | bdFilter f ns =>
    obtain ⟨e1, e2⟩ := batchDeleteFilter_view parse hts ha h1 h2 hv f ns
    exact ⟨by simp only [handleF, e1], e2⟩

theorem handleF_respects (parse : String → Option Nat) {ts : List Tn} (hts : Tenants ts) {a b : Tn} (hb : b ∈ ts)
    (hab : a.idx ≠ b.idx) {s : S} (hi : Inv ts s) (r : ReqF) : ViewEq a s (handleF parse s b r).1 := by
  cases r with
  | base r => exact handle_respects hab s r
  | bdFilter f ns => exact batchDeleteFilter_respects parse hts hb hab hi f ns

end KyroModel.Srv
