/-
Lemmas for the tenant layer (`Server/Tenant.lean`): metadata get/set, the live-document census under
`aset` / `aerase`, counters.
-/
import KyroModel.Server.Tenant

namespace KyroModel.Srv
open KyroModel

/-! ### metadata -/

theorem mget_set_self (k v : String) (m : Meta) : mget (Meta.set k v m) k = some v := by
  induction m with
  | nil => simp [Meta.set, mget]
  | cons p rest ih =>
    obtain ⟨k', v'⟩ := p
    unfold Meta.set
    split
    · simp [mget]
    · split
      · simp [mget]
      · rename_i h1 h2
        have : (k' == k) = false := by
          simp only [beq_eq_false_iff_ne, ne_eq]
          exact fun e => h2 e.symm
        simp only [mget, List.find?_cons, this] at ih ⊢
        exact ih

theorem mget_set_ne (k k' v : String) (m : Meta) (h : k ≠ k') : mget (Meta.set k' v m) k = mget m k := by
  have hk : (k' == k) = false := by simp only [beq_eq_false_iff_ne, ne_eq]; exact fun e => h e.symm
  induction m with
  | nil => simp [Meta.set, mget, hk]
  | cons p rest ih =>
    obtain ⟨k2, v2⟩ := p
    unfold Meta.set
    split
    · simp [mget, hk]
    · split
      · rename_i h1 h2
        subst h2
        simp [mget, hk]
      · simp only [mget, List.find?_cons] at ih ⊢
        split
        · rfl
        · exact ih

theorem mem_set (k v : String) (m : Meta) (p : String × String) (h : p ∈ Meta.set k v m) :
    p = (k, v) ∨ p ∈ m := by
  induction m with
  | nil => simp [Meta.set] at h; exact Or.inl h
  | cons q rest ih =>
    obtain ⟨k', v'⟩ := q
    unfold Meta.set at h
    split at h
    · rcases List.mem_cons.mp h with h | h
      · exact Or.inl h
      · exact Or.inr h
    · split at h
      · rcases List.mem_cons.mp h with h | h
        · exact Or.inl h
        · exact Or.inr (List.mem_cons_of_mem _ h)
      · rcases List.mem_cons.mp h with h | h
        · exact Or.inr (h ▸ List.mem_cons_self ..)
        · rcases ih h with h | h
          · exact Or.inl h
          · exact Or.inr (List.mem_cons_of_mem _ h)

/-- merging in a map all of whose bindings of `k` carry `v`, over a map that already binds `k` to
    `v`, leaves `k` bound to `v` -/
theorem mget_merge_const (k v : String) (a b : Meta) (ha : mget a k = some v)
    (hb : ∀ p ∈ b, p.1 = k → p.2 = v) : mget (Meta.merge a b) k = some v := by
  unfold Meta.merge
  induction b generalizing a with
  | nil => exact ha
  | cons p rest ih =>
    simp only [List.foldl_cons]
    apply ih
    · by_cases hk : p.1 = k
      · rw [hk, hb p (List.mem_cons_self ..) hk]
        exact mget_set_self _ _ _
      · rw [mget_set_ne k p.1 p.2 a (fun e => hk e.symm)]
        exact ha
    · exact fun q hq => hb q (List.mem_cons_of_mem _ hq)

theorem kIdx_ne_ns : kTenantIdx ≠ kNamespace := by decide
theorem kIdx_ne_id : kTenantIdx ≠ kTenantId := by decide
theorem reserved_idx : reserved kTenantIdx = true := by decide

theorem stamp_idx (t : Tn) (m : Meta) (ns : String) : mget (stamp t m ns) kTenantIdx = some t.idxStr := by
  unfold stamp
  simp only
  split
  · exact mget_set_self _ _ _
  · rw [mget_set_ne _ _ _ _ kIdx_ne_ns]
    exact mget_set_self _ _ _

theorem strip_no_reserved (m : Meta) (p : String × String) (h : p ∈ strip m) : reserved p.1 = false := by
  simp only [strip, List.mem_filter] at h
  simpa using h.2

theorem mem_carry (old : Meta) (k : String) (m : Meta) (p : String × String) (h : p ∈ carry old k m) :
    (p.1 = k ∧ mget old k = some p.2) ∨ p ∈ m := by
  unfold carry at h
  split at h
  · rename_i x hx
    rcases mem_set k x m p h with rfl | h
    · exact Or.inl ⟨rfl, hx⟩
    · exact Or.inr h
  · exact Or.inr h

/-- the carried-over metadata of an update binds the tenant index exactly as the stored document -/
theorem carried_idx_entries (old m : Meta) (p : String × String)
    (h : p ∈ carry old kNamespace (carry old kTenantIdx (carry old kTenantId (strip m))))
    (hk : p.1 = kTenantIdx) : mget old kTenantIdx = some p.2 := by
  rcases mem_carry _ _ _ p h with ⟨h1, _⟩ | h
  · exact (kIdx_ne_ns (hk.symm.trans h1)).elim
  · rcases mem_carry _ _ _ p h with ⟨_, h2⟩ | h
    · exact h2
    · rcases mem_carry _ _ _ p h with ⟨h1, _⟩ | h
      · exact (kIdx_ne_id (hk.symm.trans h1)).elim
      · have := strip_no_reserved m p h
        rw [hk, reserved_idx] at this
        cases this

theorem carried_idx (old m : Meta) (x : String) (hx : mget old kTenantIdx = some x) :
    mget (carry old kNamespace (carry old kTenantIdx (carry old kTenantId (strip m)))) kTenantIdx = some x := by
  have h1 : mget (carry old kTenantIdx (carry old kTenantId (strip m))) kTenantIdx = some x := by
    unfold carry
    simp only [hx]
    exact mget_set_self _ _ _
  unfold carry
  split
  · rw [mget_set_ne _ _ _ _ kIdx_ne_ns]; exact h1
  · exact h1

/-- an update keeps the stored tenant index, merge or replace -/
theorem update_keeps_idx (old m : Meta) (mg : Bool) (x : String) (hx : mget old kTenantIdx = some x) :
    mget (if mg then Meta.merge old (carry old kNamespace (carry old kTenantIdx (carry old kTenantId (strip m))))
          else carry old kNamespace (carry old kTenantIdx (carry old kTenantId (strip m)))) kTenantIdx = some x := by
  cases mg
  · exact carried_idx old m x hx
  · simp only [if_true]
    apply mget_merge_const _ _ _ _ hx
    intro p hp hk
    have := carried_idx_entries old m p hp hk
    rw [hx] at this
    exact (Option.some.inj this).symm

/-! ### client filters are blind to the server-owned keys -/

theorem get_strip (m : Meta) (k : String) (hk : reserved k = false) :
    MetaMap.get (strip m) k = MetaMap.get m k := by
  unfold MetaMap.get strip
  induction m with
  | nil => rfl
  | cons p rest ih =>
    by_cases hr : reserved p.1 = true
    · have hne : (p.1 == k) = false := by
        simp only [beq_eq_false_iff_ne, ne_eq]
        intro e; rw [e, hk] at hr; cases hr
      simp only [List.filter_cons, hr, Bool.not_true, List.find?_cons, hne]
      exact ih
    · have hr' : reserved p.1 = false := by simpa using hr
      simp only [List.filter_cons, hr', Bool.not_false, if_true, List.find?_cons]
      split
      · rfl
      · exact ih

section
variable (parse : String → Option Nat)

theorem matchesRange_strip (k : String) (b : Option Bound) (m : Meta) (hk : reserved k = false) :
    matchesRange parse k b (strip m) = matchesRange parse k b m := by
  unfold matchesRange
  rw [get_strip m k hk]

mutual
/-- a filter that names no server-owned key gives the same verdict on the stored metadata and on
    what the client can read back -/
theorem matchesF_strip : ∀ (f : Filter) (m : Meta), mentionsReserved f = false →
    matchesF parse f (strip m) = matchesF parse f m
  | .none, _, _ => by simp [matchesF]
  | .exact k v, m, h => by
    simp only [mentionsReserved] at h
    simp only [matchesF, get_strip m k h]
  | .range k b, m, h => by
    simp only [mentionsReserved] at h
    simp only [matchesF, matchesRange_strip parse k b m h]
  | .inMatch k vs, m, h => by
    simp only [mentionsReserved] at h
    simp only [matchesF, get_strip m k h]
  | .and fs, m, h => by
    simp only [mentionsReserved] at h
    simp only [matchesF, allF_strip fs m h]
  | .or fs, m, h => by
    simp only [mentionsReserved] at h
    simp only [matchesF, anyF_strip fs m h]
  | .not none, _, _ => by simp [matchesF]
  | .not (some f), m, h => by
    simp only [mentionsReserved] at h
    simp only [matchesF, matchesF_strip f m h]
theorem allF_strip : ∀ (fs : List Filter) (m : Meta), anyMentions fs = false →
    allF parse fs (strip m) = allF parse fs m
  | [], _, _ => by simp [allF]
  | f :: fs, m, h => by
    simp only [anyMentions, Bool.or_eq_false_iff] at h
    simp only [allF, matchesF_strip f m h.1, allF_strip fs m h.2]
theorem anyF_strip : ∀ (fs : List Filter) (m : Meta), anyMentions fs = false →
    anyF parse fs (strip m) = anyF parse fs m
  | [], _, _ => by simp [anyF]
  | f :: fs, m, h => by
    simp only [anyMentions, Bool.or_eq_false_iff] at h
    simp only [anyF, matchesF_strip f m h.1, anyF_strip fs m h.2]
end
end

/-! ### the census -/

def matchT (t : Tn) (d : Doc) : Bool := mget d.md kTenantIdx == some t.idxStr

def cnt (t : Tn) (docs : List (Nat × Doc)) : Nat := (docs.filter fun p => matchT t p.2).length

theorem live_eq_cnt (s : S) (t : Tn) : live s t = cnt t s.docs := rfl

def b2n (b : Bool) : Nat := if b then 1 else 0

def Keys (docs : List (Nat × Doc)) : Prop := (docs.map (·.1)).Nodup

theorem aerase_of_not_mem (g : Nat) (docs : List (Nat × Doc)) (h : g ∉ docs.map (·.1)) :
    aerase g docs = docs := by
  unfold aerase
  apply List.filter_eq_self.mpr
  intro p hp
  simp only [ne_eq, decide_eq_true_eq]
  exact fun e => h (List.mem_map.mpr ⟨p, hp, e⟩)

theorem alookup_none_of_not_mem' (g : Nat) (docs : List (Nat × Doc)) (h : g ∉ docs.map (·.1)) :
    alookup g docs = none := by
  induction docs with
  | nil => rfl
  | cons p rest ih =>
    obtain ⟨k, v⟩ := p
    simp only [List.map_cons, List.mem_cons, not_or] at h
    have : k ≠ g := fun e => h.1 e.symm
    simp [this, ih h.2]

theorem mem_keys_of_alookup (g : Nat) (docs : List (Nat × Doc)) (d : Doc) (h : alookup g docs = some d) :
    g ∈ docs.map (·.1) := by
  apply Classical.byContradiction
  intro hn
  rw [alookup_none_of_not_mem' g docs hn] at h
  cases h

/-- removing the one binding of `g` removes exactly its document from the census -/
theorem cnt_aerase (t : Tn) (g : Nat) (docs : List (Nat × Doc)) (d : Doc) (hk : Keys docs)
    (h : alookup g docs = some d) : cnt t docs = b2n (matchT t d) + cnt t (aerase g docs) := by
  induction docs with
  | nil => cases h
  | cons p rest ih =>
    obtain ⟨k, v⟩ := p
    unfold Keys at hk
    rw [List.map_cons, List.nodup_cons] at hk
    by_cases hkg : k = g
    · subst hkg
      simp only [alookup_cons, if_true, Option.some.injEq] at h
      subst h
      rw [aerase_cons_eq, aerase_of_not_mem k rest hk.1]
      unfold cnt b2n
      rw [List.filter_cons]
      cases hm : matchT t v <;> simp <;> omega
    · simp only [alookup_cons, hkg, if_false] at h
      rw [aerase_cons_ne g k v rest hkg]
      have := ih hk.2 h
      unfold cnt at this ⊢
      rw [List.filter_cons, List.filter_cons]
      cases hm : matchT t v <;> simp <;> omega

theorem cnt_aerase_absent (t : Tn) (g : Nat) (docs : List (Nat × Doc)) (h : alookup g docs = none) (hk : Keys docs) :
    cnt t (aerase g docs) = cnt t docs := by
  have : g ∉ docs.map (·.1) := by
    intro hm
    obtain ⟨p, hp, he⟩ := List.mem_map.mp hm
    -- a key that is present is found
    have : ∀ (l : List (Nat × Doc)), p ∈ l → (alookup g l).isSome := by
      intro l hl
      induction l with
      | nil => cases hl
      | cons q rest ih =>
        obtain ⟨k, v⟩ := q
        by_cases hkg : k = g
        · simp [hkg]
        · simp only [alookup_cons, hkg, if_false]
          rcases List.mem_cons.mp hl with e | hl
          · exact (hkg (by rw [← he, e])).elim
          · exact ih hl
    have := this docs hp
    rw [h] at this
    cases this
  rw [aerase_of_not_mem g docs this]

theorem cnt_aset (t : Tn) (g : Nat) (d : Doc) (docs : List (Nat × Doc)) :
    cnt t (aset g d docs) = b2n (matchT t d) + cnt t (aerase g docs) := by
  unfold aset cnt b2n
  rw [List.filter_cons]
  cases hm : matchT t d <;> simp <;> omega

theorem keys_aerase (g : Nat) (docs : List (Nat × Doc)) (hk : Keys docs) : Keys (aerase g docs) := by
  unfold Keys aerase at *
  exact hk.sublist ((List.filter_sublist).map _)

theorem not_mem_keys_aerase (g : Nat) (docs : List (Nat × Doc)) : g ∉ (aerase g docs).map (·.1) := by
  intro h
  obtain ⟨p, hp, he⟩ := List.mem_map.mp h
  simp only [aerase, List.mem_filter, ne_eq, decide_eq_true_eq] at hp
  exact hp.2 he

theorem keys_aset (g : Nat) (d : Doc) (docs : List (Nat × Doc)) (hk : Keys docs) : Keys (aset g d docs) := by
  unfold Keys aset
  rw [List.map_cons, List.nodup_cons]
  exact ⟨not_mem_keys_aerase g docs, keys_aerase g docs hk⟩

theorem mem_aerase (g : Nat) (docs : List (Nat × Doc)) (p : Nat × Doc) (h : p ∈ aerase g docs) : p ∈ docs := by
  simp only [aerase, List.mem_filter] at h
  exact h.1

/-! ### counters -/

theorem count_setCount_self (s : S) (t : Tn) (n : Nat) : count (setCount s t n) t = n := by
  simp [count, setCount, aset]

theorem count_setCount_ne (s : S) (t t' : Tn) (n : Nat) (h : t'.idx ≠ t.idx) :
    count (setCount s t n) t' = count s t' := by
  unfold count setCount
  simp only
  rw [alookup_aset_ne t.idx t'.idx n s.counts h]

theorem count_setUsage (s : S) (t t' : Tn) (u : Usage) : count (setUsage s t u) t' = count s t' := rfl

theorem count_noteInserts (s : S) (t t' : Tn) (n : Nat) : count (noteInserts s t n) t' = count s t' := by
  unfold noteInserts; split <;> rfl

theorem count_noteDeletes (s : S) (t t' : Tn) (n : Nat) : count (noteDeletes s t n) t' = count s t' := by
  unfold noteDeletes; split <;> rfl

theorem count_decCount_self (s : S) (t : Tn) (n : Nat) : count (decCount s t n) t = count s t - n := by
  unfold decCount
  split
  · rename_i h; subst h; rfl
  · exact count_setCount_self _ _ _

theorem count_decCount_ne (s : S) (t t' : Tn) (n : Nat) (h : t'.idx ≠ t.idx) :
    count (decCount s t n) t' = count s t' := by
  unfold decCount
  split
  · rfl
  · exact count_setCount_ne _ _ _ _ h

theorem docs_setCount (s : S) (t : Tn) (n : Nat) : (setCount s t n).docs = s.docs := rfl
theorem docs_noteInserts (s : S) (t : Tn) (n : Nat) : (noteInserts s t n).docs = s.docs := by
  unfold noteInserts; split <;> rfl
theorem docs_noteDeletes (s : S) (t : Tn) (n : Nat) : (noteDeletes s t n).docs = s.docs := by
  unfold noteDeletes; split <;> rfl
theorem docs_decCount (s : S) (t : Tn) (n : Nat) : (decCount s t n).docs = s.docs := by
  unfold decCount; split <;> rfl

end KyroModel.Srv
