/-
Power loss at the level of logical actions: strict recovery reads the MANIFEST, the segments it
lists and the snapshot it points to — nothing else.  A directory that differs from a kill-point
directory only in files the MANIFEST does not reference (a created file whose directory entry was
not yet synced, a removed file whose removal was not yet synced) recovers to the same documents.
-/
import KyroModel.Lemmas.PersistHistory

namespace KyroModel

/-- `d'` has the same MANIFEST as `d` and the same content in every file that MANIFEST references -/
def SameReferenced (d d' : Disk) : Prop :=
  d'.manifest = d.manifest ∧ ∀ m, d.manifest = some m →
    (∀ n ∈ m.segs, alookup n d'.wals = alookup n d.wals) ∧
    (∀ n, m.snap = some n → alookup n d'.snaps = alookup n d.snaps)

theorem SameReferenced.refl (d : Disk) : SameReferenced d d := ⟨rfl, fun _ _ => ⟨fun _ _ => rfl, fun _ _ => rfl⟩⟩

theorem DInv.of_sameReferenced {d d' : Disk} {docs : Docs} {ns : Nat} (h : DInv d docs ns)
    (hs : SameReferenced d d') : DInv d' docs ns := by
  obtain ⟨m, hm, hsegs, hsnap, hrep, hb, hsb, hss, hnd⟩ := h
  obtain ⟨hman, href⟩ := hs
  obtain ⟨hw, hsn⟩ := href m hm
  have hle : listedEntries d' m.segs = listedEntries d m.segs := listedEntries_congr d d' m.segs hw
  have hbase : snapBase d' m = snapBase d m := by
    unfold snapBase
    cases hms : m.snap with
    | none => rfl
    | some n => simp only [hsn n hms]
  refine ⟨m, hman.trans hm, ?_, ?_, ?_, ?_, ?_, ?_, hnd⟩
  · intro n hn
    rw [hw n hn]; exact hsegs n hn
  · intro n hn
    rw [hsn n hn]; exact hsnap n hn
  · rw [hbase, hle]; exact hrep
  · rw [hle]; exact hb
  · rw [hbase]; exact hsb
  · rw [hbase]; exact hss

theorem Rec.of_sameReferenced {d d' : Disk} {docs : Docs} (h : Rec d docs) (hs : SameReferenced d d') : Rec d' docs := by
  obtain ⟨ns, hd⟩ := h
  exact ⟨ns, hd.of_sameReferenced hs⟩

end KyroModel
