/-
Helper lemmas about `VCache` / `L1a` (size bound, unique keys).
-/
import KyroModel.Tiered.Ops

namespace KyroModel

theorem length_aerase_append_le {α : Type} (k : Nat) (v : α) (l : List (Nat × α))
    (h : k ∈ akeys l) : (aerase k l ++ [(k, v)]).length ≤ l.length := by
  have := aerase_length_lt_of_mem k l h
  simp only [List.length_append, List.length_cons, List.length_nil]
  omega

theorem akeys_append {α : Type} (l₁ l₂ : List (Nat × α)) :
    akeys (l₁ ++ l₂) = akeys l₁ ++ akeys l₂ := by simp [akeys]

theorem nodup_aerase_append {α : Type} (k : Nat) (v : α) (l : List (Nat × α))
    (h : AKeysNodup l) : AKeysNodup (aerase k l ++ [(k, v)]) := by
  unfold AKeysNodup at *
  rw [akeys_append]
  have h1 := nodup_aerase k l h
  unfold AKeysNodup at h1
  have h2 := not_mem_akeys_aerase (α := α) k l
  rw [List.nodup_append]
  refine ⟨h1, by simp [akeys], ?_⟩
  intro a ha b hb
  simp [akeys] at hb
  subst hb
  intro e; subst e; exact h2 ha

theorem nodup_tail {α : Type} (l : List (Nat × α)) (h : AKeysNodup l) : AKeysNodup l.tail := by
  unfold AKeysNodup akeys at *
  cases l with
  | nil => simpa using h
  | cons p rest => simp at h ⊢; exact h.2

theorem mem_akeys_tail {α : Type} (k : Nat) (l : List (Nat × α)) (h : k ∈ akeys l.tail) :
    k ∈ akeys l := by
  cases l with
  | nil => simpa using h
  | cons p rest => simp [akeys] at h ⊢; exact Or.inr h

theorem nodup_append_new {α : Type} (k : Nat) (v : α) (l : List (Nat × α))
    (h : AKeysNodup l) (hk : k ∉ akeys l) : AKeysNodup (l ++ [(k, v)]) := by
  unfold AKeysNodup at *
  rw [akeys_append, List.nodup_append]
  refine ⟨h, by simp [akeys], ?_⟩
  intro a ha b hb
  simp [akeys] at hb
  subst hb
  intro e; subst e; exact hk ha

namespace VCache
variable {D : Type}

/-- The cache's structural invariant: unique keys and at most `max cap 1` entries
    (`capacity = 0` degenerates to a one-entry cache in both code and model). -/
def Inv (c : VCache D) : Prop := AKeysNodup c.entries ∧ c.entries.length ≤ max c.cap 1

theorem inv_insert (c : VCache D) (id : Nat) (e : CEntry D) (h : c.Inv) : (c.insert id e).Inv := by
  obtain ⟨hn, hl⟩ := h
  unfold insert
  cases hlook : alookup id c.entries with
  | some x =>
    have hm := mem_akeys_of_alookup id x c.entries hlook
    exact ⟨nodup_aerase_append id e c.entries hn,
      Nat.le_trans (length_aerase_append_le id e c.entries hm) hl⟩
  | none =>
    have hnm : id ∉ akeys c.entries := not_mem_of_alookup_none id c.entries hlook
    simp only
    split
    · rename_i hge
      refine ⟨nodup_append_new id e _ (nodup_tail _ hn) (fun hm => hnm (mem_akeys_tail id _ hm)), ?_⟩
      simp only [List.length_append, List.length_tail, List.length_cons, List.length_nil]
      have : c.entries.length ≤ max c.cap 1 := hl
      omega
    · rename_i hlt
      refine ⟨nodup_append_new id e _ hn hnm, ?_⟩
      simp only [List.length_append, List.length_cons, List.length_nil]
      omega

theorem inv_get (c : VCache D) (id : Nat) (h : c.Inv) : (c.get id).1.Inv := by
  obtain ⟨hn, hl⟩ := h
  unfold get
  cases hlook : alookup id c.entries with
  | some x =>
    have hm := mem_akeys_of_alookup id x c.entries hlook
    exact ⟨nodup_aerase_append id x c.entries hn,
      Nat.le_trans (length_aerase_append_le id x c.entries hm) hl⟩
  | none => exact ⟨hn, hl⟩

theorem inv_remove (c : VCache D) (id : Nat) (h : c.Inv) : (c.remove id).Inv := by
  obtain ⟨hn, hl⟩ := h
  exact ⟨nodup_aerase id c.entries hn, Nat.le_trans (length_aerase_le id c.entries) hl⟩

@[simp] theorem cap_insert (c : VCache D) (id : Nat) (e : CEntry D) : (c.insert id e).cap = c.cap := by
  unfold insert; split <;> rfl
@[simp] theorem cap_get (c : VCache D) (id : Nat) : (c.get id).1.cap = c.cap := by
  unfold get; split <;> rfl
@[simp] theorem cap_remove (c : VCache D) (id : Nat) : (c.remove id).cap = c.cap := rfl

end VCache

namespace L1a
variable {D : Type}

def Inv (l : L1a D) : Prop := l.a.Inv ∧ l.b.Inv

theorem inv_insert (l : L1a D) (id : Nat) (e : CEntry D) (h : l.Inv) : (l.insert id e).Inv := by
  unfold insert; split
  · exact ⟨h.1, VCache.inv_insert _ _ _ h.2⟩
  · exact ⟨VCache.inv_insert _ _ _ h.1, h.2⟩

theorem inv_get (l : L1a D) (id : Nat) (h : l.Inv) : (l.get id).1.Inv := by
  unfold get; split
  · exact ⟨h.1, VCache.inv_get _ _ h.2⟩
  · exact ⟨VCache.inv_get _ _ h.1, h.2⟩

theorem inv_invalidate (l : L1a D) (id : Nat) (h : l.Inv) : (l.invalidate id).Inv :=
  ⟨VCache.inv_remove _ _ h.1, VCache.inv_remove _ _ h.2⟩

theorem inv_foldl_invalidate (ids : List Nat) (l : L1a D) (h : l.Inv) :
    (ids.foldl (fun l id => l.invalidate id) l).Inv := by
  induction ids generalizing l with
  | nil => exact h
  | cons i rest ih => exact ih _ (inv_invalidate l i h)

/-- capacities never change -/
def caps (l : L1a D) : Nat × Nat × StratKind := (l.a.cap, l.b.cap, l.kind)

@[simp] theorem caps_insert (l : L1a D) (id : Nat) (e : CEntry D) : (l.insert id e).caps = l.caps := by
  unfold insert caps; split <;> simp
@[simp] theorem caps_get (l : L1a D) (id : Nat) : (l.get id).1.caps = l.caps := by
  unfold get caps; split <;> simp
@[simp] theorem caps_invalidate (l : L1a D) (id : Nat) : (l.invalidate id).caps = l.caps := rfl

theorem caps_foldl_invalidate (ids : List Nat) (l : L1a D) :
    (ids.foldl (fun l id => l.invalidate id) l).caps = l.caps := by
  induction ids generalizing l with
  | nil => rfl
  | cons i rest ih => rw [List.foldl_cons, ih]; rfl

/-- The bound the property states: with capacity `cap ≥ 1` per cache the strategy holds at
    most `cap` documents (`2·cap` for the A/B splitter, which owns two caches). -/
theorem size_le_of_inv (l : L1a D) (h : l.Inv) :
    l.size ≤ (if l.kind == .ab then max l.a.cap 1 + max l.b.cap 1 else max l.a.cap 1) := by
  unfold size VCache.size
  have ha := h.1.2
  have hb := h.2.2
  split <;> omega

end L1a
end KyroModel
