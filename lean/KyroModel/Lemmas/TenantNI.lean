/-
Unwinding lemmas for tenant non-interference (C10): the A-view of the server state, output
consistency (a request of A answers the same on two states with the same A-view and leaves them
with the same A-view) and local respect (a request of B ≠ A does not change the A-view), for the
id-addressed RPCs.
-/
import KyroModel.Lemmas.TenantInv
import KyroModel.Lemmas.TenantBulk

namespace KyroModel.Srv
open KyroModel

/-- what tenant `a` can observe of a state through the id-addressed RPCs -/
structure ViewEq (a : Tn) (s1 s2 : S) : Prop where
  dim : s1.dim = s2.dim
  docs : ∀ g, g / limit32 = a.idx → alookup g s1.docs = alookup g s2.docs
  cnt : count s1 a = count s2 a

theorem ViewEq.refl (a : Tn) (s : S) : ViewEq a s s := ⟨rfl, fun _ _ => rfl, rfl⟩
theorem ViewEq.symm {a : Tn} {s1 s2 : S} (h : ViewEq a s1 s2) : ViewEq a s2 s1 :=
  ⟨h.dim.symm, fun g hg => (h.docs g hg).symm, h.cnt.symm⟩
theorem ViewEq.trans {a : Tn} {s1 s2 s3 : S} (h1 : ViewEq a s1 s2) (h2 : ViewEq a s2 s3) : ViewEq a s1 s3 :=
  ⟨h1.dim.trans h2.dim, fun g hg => (h1.docs g hg).trans (h2.docs g hg), h1.cnt.trans h2.cnt⟩

inductive Req
  | insert (lid : Nat) (v : List Nat) (m : Meta) (ns : String)
  | delete (lid : Nat) (ns : String)
  | update (lid : Nat) (m : Meta) (merge : Bool) (ns : String)
  | query (lid : Nat) (ns : String)
  | bulkQuery (lids : List Nat) (ns : String)
  | bdIds (lids : List Nat) (ns : String)
  | bulkInsert (items : List Item)
  | bulkLoad (items : List Item)

inductive Resp
  | unit (r : Except Err Unit)
  | bool (r : Except Err Bool)
  | nat (r : Except Err Nat)
  | read (r : Except Err (Option (List Nat × Meta)))
  | reads (r : Except Err (List (Nat × Option (List Nat × Meta))))
  | counts (inserted failed : Nat)
  | loaded (r : Except Err (Nat × Nat))

def handle (s : S) (t : Tn) : Req → S × Resp
  | .insert lid v m ns => ((insert s t lid v m ns).1, .unit (insert s t lid v m ns).2)
  | .delete lid ns => ((delete s t lid ns).1, .bool (delete s t lid ns).2)
  | .update lid m mg ns => ((updateMeta s t lid m mg ns).1, .bool (updateMeta s t lid m mg ns).2)
  | .query lid ns => (s, .read (query s t lid ns))
  | .bulkQuery lids ns => (s, .reads (bulkQuery s t lids ns))
  | .bdIds lids ns => ((batchDeleteIds s t lids ns).1, .nat (batchDeleteIds s t lids ns).2)
  | .bulkInsert items => ((bulkInsert s t items).1, .counts (bulkInsert s t items).2.1 (bulkInsert s t items).2.2)
  | .bulkLoad items => ((bulkLoad s t items).1, .loaded (bulkLoad s t items).2)

/-! ### state builders keep the view -/

theorem view_docs_aset {a : Tn} {s1 s2 : S} (h : ViewEq a s1 s2) (g : Nat) (d : Doc) :
    ∀ g', g' / limit32 = a.idx → alookup g' (aset g d s1.docs) = alookup g' (aset g d s2.docs) := by
  intro g' hg'
  by_cases e : g' = g
  · subst e; simp [aset]
  · rw [alookup_aset_ne g g' d _ e, alookup_aset_ne g g' d _ e]; exact h.docs g' hg'

theorem view_docs_aerase {a : Tn} {s1 s2 : S} (h : ViewEq a s1 s2) (g : Nat) :
    ∀ g', g' / limit32 = a.idx → alookup g' (aerase g s1.docs) = alookup g' (aerase g s2.docs) := by
  intro g' hg'
  by_cases e : g' = g
  · subst e; rw [alookup_aerase_self, alookup_aerase_self]
  · rw [alookup_aerase_ne g g' _ e, alookup_aerase_ne g g' _ e]; exact h.docs g' hg'

theorem readDoc_view {a : Tn} {s1 s2 : S} (h : ViewEq a s1 s2) (lid : Nat) (ns : String) :
    readDoc s1 a lid ns = readDoc s2 a lid ns := by
  unfold readDoc
  split
  · rfl
  · rename_i g hg
    rw [h.docs g (gid_div a lid g hg)]

/-! ### output consistency -/

theorem insertCore_view {a : Tn} {s1 s2 : S} (h : ViewEq a s1 s2) {g : Nat} (hg : g / limit32 = a.idx)
    (v : List Nat) (m : Meta) (ns : String) :
    (insertCore s1 a g v m ns).2 = (insertCore s2 a g v m ns).2 ∧
      ViewEq a (insertCore s1 a g v m ns).1 (insertCore s2 a g v m ns).1 := by
  have hl := h.docs g hg
  have hd := h.dim
  have hc := h.cnt
  -- the four outcomes of `insertCore`, as equations on one state
  have overwrite : ∀ (s : S), v.length = s.dim → (alookup g s.docs).isSome = true →
      insertCore s a g v m ns = ({ s with docs := aset g ⟨v, stamp a m ns⟩ s.docs }, .ok ()) := by
    intro s hv hs; simp [insertCore, engineInsert, hv, hs]
  have refusedDim : ∀ (s : S), ¬ v.length = s.dim → (alookup g s.docs).isSome = true →
      insertCore s a g v m ns = (s, .error .internal) := by
    intro s hv hs; simp [insertCore, engineInsert, hv, hs]
  have full : ∀ (s : S), ¬ (alookup g s.docs).isSome = true → a.maxv ≤ count s a →
      insertCore s a g v m ns = (s, .error .resourceExhausted) := by
    intro s hs hq; simp [insertCore, hs, hq]
  have fresh : ∀ (s : S), v.length = s.dim → ¬ (alookup g s.docs).isSome = true → ¬ a.maxv ≤ count s a →
      insertCore s a g v m ns =
        (noteInserts { setCount s a (count s a + 1) with docs := aset g ⟨v, stamp a m ns⟩ s.docs } a 1, .ok ()) := by
    intro s hv hs hq; simp [insertCore, engineInsert, hv, hs, hq, setCount]
  have freshRefused : ∀ (s : S), ¬ v.length = s.dim → ¬ (alookup g s.docs).isSome = true → ¬ a.maxv ≤ count s a →
      insertCore s a g v m ns = (decCount (setCount s a (count s a + 1)) a 1, .error .internal) := by
    intro s hv hs hq; simp [insertCore, engineInsert, hv, hs, hq, setCount]
  by_cases hv : v.length = s1.dim
  · have hv2 : v.length = s2.dim := hd ▸ hv
    by_cases hs : (alookup g s1.docs).isSome = true
    · have hs2 : (alookup g s2.docs).isSome = true := hl ▸ hs
      rw [overwrite s1 hv hs, overwrite s2 hv2 hs2]
      exact ⟨rfl, ⟨hd, view_docs_aset h g _, hc⟩⟩
    · have hs2 : ¬ (alookup g s2.docs).isSome = true := hl ▸ hs
      by_cases hq : a.maxv ≤ count s1 a
      · have hq2 : a.maxv ≤ count s2 a := hc ▸ hq
        rw [full s1 hs hq, full s2 hs2 hq2]
        exact ⟨rfl, h⟩
      · have hq2 : ¬ a.maxv ≤ count s2 a := hc ▸ hq
        rw [fresh s1 hv hs hq, fresh s2 hv2 hs2 hq2]
        refine ⟨rfl, ⟨hd, ?_, ?_⟩⟩
        · intro g' hg'
          rw [docs_noteInserts, docs_noteInserts]
          exact view_docs_aset h g _ g' hg'
        · rw [count_noteInserts, count_noteInserts]
          simpa [count, setCount, aset] using hc
  · have hv2 : ¬ v.length = s2.dim := hd ▸ hv
    by_cases hs : (alookup g s1.docs).isSome = true
    · have hs2 : (alookup g s2.docs).isSome = true := hl ▸ hs
      rw [refusedDim s1 hv hs, refusedDim s2 hv2 hs2]
      exact ⟨rfl, h⟩
    · have hs2 : ¬ (alookup g s2.docs).isSome = true := hl ▸ hs
      by_cases hq : a.maxv ≤ count s1 a
      · have hq2 : a.maxv ≤ count s2 a := hc ▸ hq
        rw [full s1 hs hq, full s2 hs2 hq2]
        exact ⟨rfl, h⟩
      · have hq2 : ¬ a.maxv ≤ count s2 a := hc ▸ hq
        rw [freshRefused s1 hv hs hq, freshRefused s2 hv2 hs2 hq2]
        refine ⟨rfl, ⟨hd, ?_, ?_⟩⟩
        · intro g' hg'
          rw [docs_decCount, docs_decCount]
          exact h.docs g' hg'
        · rw [count_decCount_self, count_decCount_self, count_setCount_self, count_setCount_self, hc]

theorem deleteMany_view {a : Tn} (gs : List Nat) (hgs : ∀ g ∈ gs, g / limit32 = a.idx) :
    ∀ {s1 s2 : S}, ViewEq a s1 s2 →
      (deleteMany s1 gs).2 = (deleteMany s2 gs).2 ∧ ViewEq a (deleteMany s1 gs).1 (deleteMany s2 gs).1 := by
  induction gs with
  | nil => intro s1 s2 h; exact ⟨rfl, h⟩
  | cons g rest ih =>
    intro s1 s2 h
    have hg := hgs g (List.mem_cons_self ..)
    have hl := h.docs g hg
    unfold deleteMany
    by_cases hs : (alookup g s1.docs).isSome = true
    · have hs2 : (alookup g s2.docs).isSome = true := hl ▸ hs
      simp only [hs, hs2, if_true]
      have h' : ViewEq a { s1 with docs := aerase g s1.docs } { s2 with docs := aerase g s2.docs } :=
        ⟨h.dim, view_docs_aerase h g, h.cnt⟩
      obtain ⟨e1, e2⟩ := ih (fun x hx => hgs x (List.mem_cons_of_mem _ hx)) h'
      exact ⟨by rw [e1], e2⟩
    · have hs2 : ¬ (alookup g s2.docs).isSome = true := hl ▸ hs
      simp only [hs, hs2, if_false, Bool.false_eq_true]
      exact ih (fun x hx => hgs x (List.mem_cons_of_mem _ hx)) h

theorem insert_view {a : Tn} {s1 s2 : S} (h : ViewEq a s1 s2) (lid : Nat) (v : List Nat) (m : Meta) (ns : String) :
    (insert s1 a lid v m ns).2 = (insert s2 a lid v m ns).2 ∧ ViewEq a (insert s1 a lid v m ns).1 (insert s2 a lid v m ns).1 := by
  unfold insert
  split
  · exact ⟨rfl, h⟩
  · split
    · exact ⟨rfl, h⟩
    · rename_i g hg
      exact insertCore_view h (gid_div a lid g hg) v m ns

theorem bulkInsert_view {a : Tn} (items : List Item) :
    ∀ {s1 s2 : S}, ViewEq a s1 s2 →
      (bulkInsert s1 a items).2 = (bulkInsert s2 a items).2 ∧ ViewEq a (bulkInsert s1 a items).1 (bulkInsert s2 a items).1 := by
  induction items with
  | nil => intro s1 s2 h; exact ⟨rfl, h⟩
  | cons it rest ih =>
    intro s1 s2 h
    obtain ⟨e1, e2⟩ := insert_view h it.lid it.vec it.md it.ns
    obtain ⟨r1, r2⟩ := ih e2
    unfold bulkInsert
    simp only
    rw [e1]
    have p1 := congrArg Prod.fst r1
    have p2 := congrArg Prod.snd r1
    split <;> exact ⟨by simp only [p1, p2], r2⟩

theorem dim_noteInserts (s : S) (t : Tn) (n : Nat) : (noteInserts s t n).dim = s.dim := by
  unfold noteInserts; by_cases hn : n = 0 <;> simp [hn, setUsage]
theorem dim_noteDeletes (s : S) (t : Tn) (n : Nat) : (noteDeletes s t n).dim = s.dim := by
  unfold noteDeletes; by_cases hn : n = 0 <;> simp [hn, setUsage]
theorem dim_decCount (s : S) (t : Tn) (n : Nat) : (decCount s t n).dim = s.dim := by
  unfold decCount; by_cases hn : n = 0 <;> simp [hn, setCount]

theorem loadAll_cons (s : S) (g : Nat) (v : List Nat) (m : Meta) (rest : List (Nat × List Nat × Meta)) :
    loadAll s ((g, v, m) :: rest) =
      if v.length = s.dim then
        ((loadAll { s with docs := aset g ⟨v, m⟩ s.docs } rest).1, (loadAll { s with docs := aset g ⟨v, m⟩ s.docs } rest).2.1 + 1,
          (loadAll { s with docs := aset g ⟨v, m⟩ s.docs } rest).2.2)
      else ((loadAll s rest).1, (loadAll s rest).2.1, (loadAll s rest).2.2 + 1) := by
  rw [loadAll]
  by_cases hv : v.length = s.dim <;> simp [engineInsert, hv]

theorem loadAll_view {a : Tn} (B : List (Nat × List Nat × Meta)) (hB : ∀ b ∈ B, b.1 / limit32 = a.idx) :
    ∀ {s1 s2 : S}, ViewEq a s1 s2 →
      (loadAll s1 B).2 = (loadAll s2 B).2 ∧ ViewEq a (loadAll s1 B).1 (loadAll s2 B).1 := by
  induction B with
  | nil => intro s1 s2 h; exact ⟨rfl, h⟩
  | cons b rest ih =>
    obtain ⟨g, v, m⟩ := b
    intro s1 s2 h
    have hrest : ∀ b ∈ rest, b.1 / limit32 = a.idx := fun b hb => hB b (List.mem_cons_of_mem _ hb)
    rw [loadAll_cons, loadAll_cons]
    by_cases hv : v.length = s1.dim
    · have hv2 : v.length = s2.dim := h.dim ▸ hv
      have h' : ViewEq a { s1 with docs := aset g ⟨v, m⟩ s1.docs } { s2 with docs := aset g ⟨v, m⟩ s2.docs } :=
        ⟨h.dim, view_docs_aset h g _, h.cnt⟩
      obtain ⟨r1, r2⟩ := ih hrest h'
      rw [if_pos hv, if_pos hv2]
      exact ⟨by rw [r1], r2⟩
    · have hv2 : ¬ v.length = s2.dim := h.dim ▸ hv
      obtain ⟨r1, r2⟩ := ih hrest h
      rw [if_neg hv, if_neg hv2]
      exact ⟨by rw [r1], r2⟩

theorem view_setCount {a : Tn} {s1 s2 : S} (h : ViewEq a s1 s2) (n : Nat) :
    ViewEq a (setCount s1 a n) (setCount s2 a n) :=
  ⟨h.dim, h.docs, by rw [count_setCount_self, count_setCount_self]⟩

theorem bulkLoad_view {a : Tn} {s1 s2 : S} (h : ViewEq a s1 s2) (items : List Item) :
    (bulkLoad s1 a items).2 = (bulkLoad s2 a items).2 ∧ ViewEq a (bulkLoad s1 a items).1 (bulkLoad s2 a items).1 := by
  unfold bulkLoad
  simp only
  generalize hBdef : ((items.filter fun it => !(decide (it.lid < 1) || it.vec.isEmpty) && (gid a it.lid).isSome).map
      fun it => ((gid a it.lid).getD 0, it.vec, stamp a it.md it.ns)) = B
  have hB : ∀ b ∈ B, b.1 / limit32 = a.idx := by
    intro b hb
    rw [← hBdef] at hb
    obtain ⟨it, hit, rfl⟩ := List.mem_map.mp hb
    simp only [List.mem_filter, Bool.and_eq_true] at hit
    obtain ⟨g, hg⟩ := Option.isSome_iff_exists.mp hit.2.2
    simp only [hg, Option.getD_some]
    exact gid_div a it.lid g hg
  split
  · exact ⟨rfl, h⟩
  -- the new ids are computed from lookups in the caller's own range
  have hnew : ((B.map (·.1)).filter fun g => !(alookup g s1.docs).isSome) =
      ((B.map (·.1)).filter fun g => !(alookup g s2.docs).isSome) := by
    apply List.filter_congr
    intro g hg
    obtain ⟨b, hb, rfl⟩ := List.mem_map.mp hg
    rw [h.docs b.1 (hB b hb)]
  rw [hnew, h.cnt]
  generalize hN : dedupNat ((B.map (·.1)).filter fun g => !(alookup g s2.docs).isSome) = newIds
  have hNin : ∀ g ∈ newIds, g / limit32 = a.idx := by
    intro g hg
    rw [← hN, mem_dedupNat] at hg
    obtain ⟨b, hb, rfl⟩ := List.mem_map.mp (List.mem_filter.mp hg).1
    exact hB b hb
  split
  · exact ⟨rfl, h⟩
  · have hs1 : ViewEq a (if newIds.isEmpty = true then s1 else setCount s1 a (count s2 a + newIds.length))
        (if newIds.isEmpty = true then s2 else setCount s2 a (count s2 a + newIds.length)) := by
      split
      · exact h
      · exact view_setCount h _
    obtain ⟨r1, r2⟩ := loadAll_view B hB hs1
    have hnow : (newIds.filter fun g => (alookup g (loadAll (if newIds.isEmpty = true then s1 else setCount s1 a (count s2 a + newIds.length)) B).1.docs).isSome) =
        (newIds.filter fun g => (alookup g (loadAll (if newIds.isEmpty = true then s2 else setCount s2 a (count s2 a + newIds.length)) B).1.docs).isSome) := by
      apply List.filter_congr
      intro g hg
      rw [r2.docs g (hNin g hg)]
    rw [hnow, r1]
    refine ⟨rfl, ⟨?_, ?_, ?_⟩⟩
    · rw [dim_noteInserts, dim_decCount, dim_noteInserts, dim_decCount]; exact r2.dim
    · intro g' hg'
      rw [docs_noteInserts, docs_decCount, docs_noteInserts, docs_decCount]
      exact r2.docs g' hg'
    · rw [count_noteInserts, count_decCount_self, count_noteInserts, count_decCount_self, r2.cnt]

/-- **Output consistency**: a request of `a` answers the same on two states with the same A-view
    and leaves them with the same A-view. -/
theorem handle_view {a : Tn} {s1 s2 : S} (h : ViewEq a s1 s2) (r : Req) :
    (handle s1 a r).2 = (handle s2 a r).2 ∧ ViewEq a (handle s1 a r).1 (handle s2 a r).1 := by
  cases r with
  | insert lid v m ns =>
    simp only [handle, insert]
    split
    · exact ⟨rfl, h⟩
    · split
      · exact ⟨rfl, h⟩
      · rename_i g hg
        obtain ⟨e1, e2⟩ := insertCore_view h (gid_div a lid g hg) v m ns
        exact ⟨by rw [e1], e2⟩
  | delete lid ns =>
    simp only [handle, delete]
    split
    · exact ⟨rfl, h⟩
    · split
      · exact ⟨rfl, h⟩
      · rename_i g hg
        have hgd := gid_div a lid g hg
        rw [h.docs g hgd]
        split
        · exact ⟨rfl, h⟩
        · split
          · exact ⟨rfl, h⟩
          · refine ⟨rfl, ⟨h.dim, ?_, ?_⟩⟩
            · intro g' hg'
              rw [docs_noteDeletes, docs_decCount, docs_noteDeletes, docs_decCount]
              exact view_docs_aerase h g g' hg'
            · rw [count_noteDeletes, count_decCount_self, count_noteDeletes, count_decCount_self]
              show count s1 a - 1 = count s2 a - 1
              rw [h.cnt]
  | update lid m mg ns =>
    simp only [handle, updateMeta]
    split
    · exact ⟨rfl, h⟩
    · split
      · exact ⟨rfl, h⟩
      · rename_i g hg
        have hgd := gid_div a lid g hg
        rw [h.docs g hgd]
        split
        · exact ⟨rfl, h⟩
        · split
          · exact ⟨rfl, h⟩
          · exact ⟨rfl, ⟨h.dim, view_docs_aset h g _, h.cnt⟩⟩
  | query lid ns =>
    simp only [handle, query]
    rw [readDoc_view h lid ns]
    exact ⟨rfl, h⟩
  | bulkQuery lids ns =>
    simp only [handle, bulkQuery]
    have : (lids.map fun l => (l, readDoc s1 a l ns)) = lids.map fun l => (l, readDoc s2 a l ns) := by
      apply List.map_congr_left
      intro l _
      rw [readDoc_view h l ns]
    rw [this]
    exact ⟨rfl, h⟩
  | bdIds lids ns =>
    simp only [handle, batchDeleteIds]
    split
    · exact ⟨rfl, h⟩
    · -- the ids the tenant check lets through are the same in both states
      have hgs : (lids.filterMap (gid a)).filter (visibleAt s1 a ns) =
          (lids.filterMap (gid a)).filter (visibleAt s2 a ns) := by
        apply List.filter_congr
        intro g hg
        obtain ⟨l, _, hl⟩ := List.mem_filterMap.mp hg
        unfold visibleAt
        rw [h.docs g (gid_div a l g hl)]
      simp only
      rw [hgs]
      have hin : ∀ g ∈ (lids.filterMap (gid a)).filter (visibleAt s2 a ns), g / limit32 = a.idx := by
        intro g hg
        obtain ⟨l, _, hl⟩ := List.mem_filterMap.mp (List.mem_filter.mp hg).1
        exact gid_div a l g hl
      obtain ⟨e1, e2⟩ := deleteMany_view _ hin h
      rw [e1]
      refine ⟨rfl, ⟨?_, ?_, ?_⟩⟩
      · have d1 : ∀ (x : S) (n : Nat), (noteDeletes (decCount x a n) a n).dim = x.dim := by
          intro x n
          unfold noteDeletes decCount
          by_cases hn : n = 0 <;> simp [hn, setUsage, setCount]
        rw [d1, d1]; exact e2.dim
      · intro g' hg'
        rw [docs_noteDeletes, docs_decCount, docs_noteDeletes, docs_decCount]
        exact e2.docs g' hg'
      · rw [count_noteDeletes, count_decCount_self, count_noteDeletes, count_decCount_self, e2.cnt]
  | bulkInsert items =>
    simp only [handle]
    obtain ⟨e1, e2⟩ := bulkInsert_view items h
    exact ⟨by rw [e1], e2⟩
  | bulkLoad items =>
    simp only [handle]
    obtain ⟨e1, e2⟩ := bulkLoad_view h items
    exact ⟨by rw [e1], e2⟩

/-! ### local respect -/

/-- whatever `insertCore` of tenant `b` does, it touches only the document under `g` and only
    `b`'s counter -/
theorem insertCore_respects {a b : Tn} (hab : a.idx ≠ b.idx) (s : S) {g : Nat} (hg : g / limit32 = b.idx)
    (v : List Nat) (m : Meta) (ns : String) : ViewEq a s (insertCore s b g v m ns).1 := by
  have hne : ∀ g', g' / limit32 = a.idx → g' ≠ g := fun g' h e => hab (by rw [← h, e, hg])
  by_cases hv : v.length = s.dim <;> by_cases hs : (alookup g s.docs).isSome = true <;>
    by_cases hq : b.maxv ≤ count s b
  all_goals
    first
    | (have e : insertCore s b g v m ns = ({ s with docs := aset g ⟨v, stamp b m ns⟩ s.docs }, .ok ()) := by
          simp [insertCore, engineInsert, hv, hs]
       rw [e]
       exact ⟨rfl, fun g' hg' => (alookup_aset_ne g g' _ _ (hne g' hg')).symm, rfl⟩)
    | (have e : (insertCore s b g v m ns).1 = s := by simp [insertCore, engineInsert, hv, hs, hq]
       rw [e]; exact ViewEq.refl a s)
    | (have e : insertCore s b g v m ns =
            (noteInserts { setCount s b (count s b + 1) with docs := aset g ⟨v, stamp b m ns⟩ s.docs } b 1, .ok ()) := by
          simp [insertCore, engineInsert, hv, hs, hq, setCount]
       rw [e]
       refine ⟨by rw [dim_noteInserts]; rfl, ?_, ?_⟩
       · intro g' hg'
         rw [docs_noteInserts]
         exact (alookup_aset_ne g g' _ _ (hne g' hg')).symm
       · rw [count_noteInserts]
         exact (count_setCount_ne s b a _ hab).symm)
    | (have e : insertCore s b g v m ns = (decCount (setCount s b (count s b + 1)) b 1, .error .internal) := by
          simp [insertCore, engineInsert, hv, hs, hq, setCount]
       rw [e]
       refine ⟨by rw [dim_decCount]; rfl, ?_, ?_⟩
       · intro g' _
         rw [docs_decCount]; rfl
       · rw [count_decCount_ne _ _ _ _ hab, count_setCount_ne _ _ _ _ hab])

theorem deleteMany_respects {a : Tn} (gs : List Nat) (hgs : ∀ g ∈ gs, g / limit32 ≠ a.idx) :
    ∀ (s : S), ViewEq a s (deleteMany s gs).1 := by
  induction gs with
  | nil => intro s; exact ViewEq.refl a s
  | cons g rest ih =>
    intro s
    unfold deleteMany
    split
    · have h1 : ViewEq a s { s with docs := aerase g s.docs } :=
        ⟨rfl, fun g' hg' => (alookup_aerase_ne g g' _ (fun e => hgs g (List.mem_cons_self ..) (e ▸ hg'))).symm, rfl⟩
      exact h1.trans (ih (fun x hx => hgs x (List.mem_cons_of_mem _ hx)) _)
    · exact ih (fun x hx => hgs x (List.mem_cons_of_mem _ hx)) s

theorem bulkInsert_respects {a b : Tn} (hab : a.idx ≠ b.idx) (items : List Item) :
    ∀ (s : S), ViewEq a s (bulkInsert s b items).1 := by
  induction items with
  | nil => intro s; exact ViewEq.refl a s
  | cons it rest ih =>
    intro s
    have h1 : ViewEq a s (insert s b it.lid it.vec it.md it.ns).1 := by
      unfold insert
      split
      · exact ViewEq.refl a s
      · split
        · exact ViewEq.refl a s
        · rename_i g hg
          exact insertCore_respects hab s (gid_div b it.lid g hg) it.vec it.md it.ns
    have h2 := ih (insert s b it.lid it.vec it.md it.ns).1
    unfold bulkInsert
    simp only
    split <;> exact h1.trans h2

theorem loadAll_respects {a : Tn} (B : List (Nat × List Nat × Meta)) (hB : ∀ b ∈ B, b.1 / limit32 ≠ a.idx) :
    ∀ (s : S), ViewEq a s (loadAll s B).1 := by
  induction B with
  | nil => intro s; exact ViewEq.refl a s
  | cons b rest ih =>
    obtain ⟨g, v, m⟩ := b
    intro s
    have hrest : ∀ b ∈ rest, b.1 / limit32 ≠ a.idx := fun b hb => hB b (List.mem_cons_of_mem _ hb)
    have hg : g / limit32 ≠ a.idx := hB (g, v, m) (List.mem_cons_self ..)
    rw [loadAll_cons]
    by_cases hv : v.length = s.dim
    · rw [if_pos hv]
      have h1 : ViewEq a s { s with docs := aset g ⟨v, m⟩ s.docs } :=
        ⟨rfl, fun g' hg' => (alookup_aset_ne g g' _ _ (fun e => hg (e ▸ hg'))).symm, rfl⟩
      exact h1.trans (ih hrest _)
    · rw [if_neg hv]
      exact ih hrest s

theorem bulkLoad_respects {a b : Tn} (hab : a.idx ≠ b.idx) (s : S) (items : List Item) :
    ViewEq a s (bulkLoad s b items).1 := by
  unfold bulkLoad
  simp only
  generalize hBdef : ((items.filter fun it => !(decide (it.lid < 1) || it.vec.isEmpty) && (gid b it.lid).isSome).map
      fun it => ((gid b it.lid).getD 0, it.vec, stamp b it.md it.ns)) = B
  have hB : ∀ x ∈ B, x.1 / limit32 ≠ a.idx := by
    intro x hx e
    rw [← hBdef] at hx
    obtain ⟨it, hit, rfl⟩ := List.mem_map.mp hx
    simp only [List.mem_filter, Bool.and_eq_true] at hit
    obtain ⟨g, hg⟩ := Option.isSome_iff_exists.mp hit.2.2
    simp only [hg, Option.getD_some] at e
    exact hab (e.symm.trans (gid_div b it.lid g hg))
  split
  · exact ViewEq.refl a s
  generalize dedupNat ((B.map (·.1)).filter fun g => !(alookup g s.docs).isSome) = newIds
  split
  · exact ViewEq.refl a s
  · have h0 : ViewEq a s (if newIds.isEmpty = true then s else setCount s b (count s b + newIds.length)) := by
      split
      · exact ViewEq.refl a s
      · exact ⟨rfl, fun _ _ => rfl, (count_setCount_ne s b a _ hab).symm⟩
    have h1 := h0.trans (loadAll_respects B hB _)
    refine ⟨?_, ?_, ?_⟩
    · rw [dim_noteInserts, dim_decCount]; exact h1.dim
    · intro g' hg'
      rw [docs_noteInserts, docs_decCount]
      exact h1.docs g' hg'
    · rw [count_noteInserts, count_decCount_ne _ _ _ _ hab]
      exact h1.cnt

/-- **Local respect**: a request of tenant `b` does not change what tenant `a` (another index) can
    observe. -/
theorem handle_respects {a b : Tn} (hab : a.idx ≠ b.idx) (s : S) (r : Req) : ViewEq a s (handle s b r).1 := by
  cases r with
  | insert lid v m ns =>
    simp only [handle, insert]
    split
    · exact ViewEq.refl a s
    · split
      · exact ViewEq.refl a s
      · rename_i g hg
        exact insertCore_respects hab s (gid_div b lid g hg) v m ns
  | delete lid ns =>
    simp only [handle, delete]
    split
    · exact ViewEq.refl a s
    · split
      · exact ViewEq.refl a s
      · rename_i g hg
        have hgd := gid_div b lid g hg
        split
        · exact ViewEq.refl a s
        · split
          · exact ViewEq.refl a s
          · refine ⟨by rw [dim_noteDeletes, dim_decCount], ?_, ?_⟩
            · intro g' hg'
              rw [docs_noteDeletes, docs_decCount]
              exact (alookup_aerase_ne g g' _ (fun e => hab (by rw [← hg', e, hgd]))).symm
            · rw [count_noteDeletes, count_decCount_ne _ _ _ _ hab]; rfl
  | update lid m mg ns =>
    simp only [handle, updateMeta]
    split
    · exact ViewEq.refl a s
    · split
      · exact ViewEq.refl a s
      · rename_i g hg
        have hgd := gid_div b lid g hg
        split
        · exact ViewEq.refl a s
        · split
          · exact ViewEq.refl a s
          · exact ⟨rfl, fun g' hg' => (alookup_aset_ne g g' _ _ (fun e => hab (by rw [← hg', e, hgd]))).symm, rfl⟩
  | query lid ns => exact ViewEq.refl a s
  | bulkQuery lids ns => exact ViewEq.refl a s
  | bdIds lids ns =>
    simp only [handle, batchDeleteIds]
    split
    · exact ViewEq.refl a s
    · simp only
      have hgs : ∀ g ∈ (lids.filterMap (gid b)).filter (visibleAt s b ns), g / limit32 ≠ a.idx := by
        intro g hg e
        obtain ⟨l, _, hl⟩ := List.mem_filterMap.mp (List.mem_filter.mp hg).1
        exact hab (e.symm.trans (gid_div b l g hl))
      have h1 := deleteMany_respects _ hgs s
      refine ⟨by rw [dim_noteDeletes, dim_decCount]; exact h1.dim, ?_, ?_⟩
      · intro g' hg'
        rw [docs_noteDeletes, docs_decCount]
        exact h1.docs g' hg'
      · rw [count_noteDeletes, count_decCount_ne _ _ _ _ hab]
        exact h1.cnt
  | bulkInsert items => exact bulkInsert_respects hab items s
  | bulkLoad items => exact bulkLoad_respects hab s items

end KyroModel.Srv
