/-
The quota invariant of the tenant layer and its preservation by every write path.
-/
import KyroModel.Lemmas.Tenant

namespace KyroModel.Srv
open KyroModel

/-- configured tenants: index and index text identify the tenant -/
def Tenants (ts : List Tn) : Prop :=
  ∀ a ∈ ts, ∀ b ∈ ts, (a.idx = b.idx ∨ a.idxStr = b.idxStr) → a = b

structure Inv (ts : List Tn) (s : S) : Prop where
  keys : Keys s.docs
  /-- every stored document sits in the id range of the tenant whose index it carries -/
  owned : ∀ p ∈ s.docs, ∃ t ∈ ts, p.1 / limit32 = t.idx ∧ matchT t p.2 = true
  /-- the count used for admission = the live documents -/
  exact : ∀ t ∈ ts, count s t = cnt t s.docs
  bounded : ∀ t ∈ ts, count s t ≤ t.maxv

theorem matchT_other {ts : List Tn} (hts : Tenants ts) {a b : Tn} (ha : a ∈ ts) (hb : b ∈ ts) (d : Doc)
    (hm : matchT a d = true) (hne : a ≠ b) : matchT b d = false := by
  cases hb' : matchT b d
  · rfl
  · exfalso
    simp only [matchT, beq_iff_eq] at hm hb'
    rw [hm] at hb'
    exact hne (hts a ha b hb (Or.inr (Option.some.inj hb')))

theorem idx_ne {ts : List Tn} (hts : Tenants ts) {a b : Tn} (ha : a ∈ ts) (hb : b ∈ ts) (hne : a ≠ b) :
    a.idx ≠ b.idx := fun e => hne (hts a ha b hb (Or.inl e))

theorem gid_div (t : Tn) (lid g : Nat) (h : gid t lid = some g) : g / limit32 = t.idx := by
  unfold gid at h
  split at h
  · rename_i hl
    cases h
    rw [Nat.mul_comm, Nat.mul_add_div (by decide : limit32 > 0), Nat.div_eq_of_lt hl]
    omega
  · cases h

/-- the census after replacing / adding the binding of `g` -/
theorem cnt_aset_general (t' : Tn) (g : Nat) (d : Doc) (docs : List (Nat × Doc)) (hk : Keys docs) :
    cnt t' (aset g d docs) + (match alookup g docs with | some d0 => b2n (matchT t' d0) | none => 0)
      = b2n (matchT t' d) + cnt t' docs := by
  rw [cnt_aset]
  split
  · rename_i d0 h0
    rw [cnt_aerase t' g docs d0 hk h0]; omega
  · rename_i h0
    rw [cnt_aerase_absent t' g docs h0 hk]; omega

/-- a stored document under one of `t`'s ids carries `t`'s index -/
theorem owned_matches {ts : List Tn} (hts : Tenants ts) {s : S} (hi : Inv ts s) {t : Tn} (ht : t ∈ ts)
    {g : Nat} (hg : g / limit32 = t.idx) {d : Doc} (hd : alookup g s.docs = some d) : matchT t d = true := by
  have hmem : (g, d) ∈ s.docs := by
    have : ∀ (l : List (Nat × Doc)), alookup g l = some d → (g, d) ∈ l := by
      intro l
      induction l with
      | nil => intro h; cases h
      | cons p rest ih =>
        obtain ⟨k, v⟩ := p
        intro h
        by_cases hk : k = g
        · simp only [alookup_cons, hk, if_true, Option.some.injEq] at h
          rw [hk, h]; exact List.mem_cons_self ..
        · simp only [alookup_cons, hk, if_false] at h
          exact List.mem_cons_of_mem _ (ih h)
    exact this _ hd
  obtain ⟨t0, ht0, h1, h2⟩ := hi.owned _ hmem
  have : t0 = t := hts t0 ht0 t ht (Or.inl (h1.symm.trans hg))
  rw [← this]; exact h2

/-- storing a document stamped by `t` under one of `t`'s ids, with the count raised iff the id was new -/
theorem inv_store {ts : List Tn} (hts : Tenants ts) {s : S} (hi : Inv ts s) {t : Tn} (ht : t ∈ ts)
    {g : Nat} (hg : g / limit32 = t.idx) (d : Doc) (hd : matchT t d = true)
    (s' : S) (hdocs : s'.docs = aset g d s.docs)
    (hct : count s' t = count s t + (if (alookup g s.docs).isSome then 0 else 1))
    (hco : ∀ t' ∈ ts, t' ≠ t → count s' t' = count s t')
    (hb : count s' t ≤ t.maxv) : Inv ts s' := by
  refine ⟨?_, ?_, ?_, ?_⟩
  · rw [hdocs]; exact keys_aset g d _ hi.keys
  · intro p hp
    rw [hdocs] at hp
    rcases List.mem_cons.mp hp with rfl | hp
    · exact ⟨t, ht, hg, hd⟩
    · exact hi.owned p (mem_aerase g _ p hp)
  · intro t' ht'
    have hgen := cnt_aset_general t' g d s.docs hi.keys
    rw [hdocs]
    by_cases he : t' = t
    · subst he
      rw [hct, hi.exact t' ht']
      cases hl : alookup g s.docs with
      | none => simp only [hl] at hgen; simp [hd, b2n] at hgen ⊢; omega
      | some d0 =>
        have := owned_matches hts hi ht' hg hl
        simp only [hl] at hgen
        simp [hd, this, b2n] at hgen ⊢; omega
    · rw [hco t' ht' he, hi.exact t' ht']
      have h1 : matchT t' d = false := matchT_other hts ht ht' d hd (fun e => he e.symm)
      cases hl : alookup g s.docs with
      | none => simp only [hl] at hgen; simp [h1, b2n] at hgen; omega
      | some d0 =>
        have h2 : matchT t' d0 = false :=
          matchT_other hts ht ht' d0 (owned_matches hts hi ht hg hl) (fun e => he e.symm)
        simp only [hl] at hgen
        simp [h1, h2, b2n] at hgen; omega
  · intro t' ht'
    by_cases he : t' = t
    · subst he; exact hb
    · rw [hco t' ht' he]; exact hi.bounded t' ht'

/-- removing a document that carries `t`'s index, with the count lowered by one -/
theorem inv_remove {ts : List Tn} (hts : Tenants ts) {s : S} (hi : Inv ts s) {t : Tn} (ht : t ∈ ts)
    {g : Nat} {d : Doc} (hl : alookup g s.docs = some d) (hd : matchT t d = true)
    (s' : S) (hdocs : s'.docs = aerase g s.docs)
    (hct : count s' t = count s t - 1)
    (hco : ∀ t' ∈ ts, t' ≠ t → count s' t' = count s t') : Inv ts s' := by
  refine ⟨?_, ?_, ?_, ?_⟩
  · rw [hdocs]; exact keys_aerase g _ hi.keys
  · intro p hp
    rw [hdocs] at hp
    exact hi.owned p (mem_aerase g _ p hp)
  · intro t' ht'
    have hgen := cnt_aerase t' g s.docs d hi.keys hl
    rw [hdocs]
    by_cases he : t' = t
    · subst he
      rw [hct, hi.exact t' ht', hgen]
      simp [hd, b2n]
    · rw [hco t' ht' he, hi.exact t' ht', hgen]
      simp [matchT_other hts ht ht' d hd (fun e => he e.symm), b2n]
  · intro t' ht'
    by_cases he : t' = t
    · subst he; rw [hct]; exact Nat.le_trans (Nat.sub_le _ _) (hi.bounded t' ht')
    · rw [hco t' ht' he]; exact hi.bounded t' ht'

/-- only usage counters moved -/
theorem inv_same {ts : List Tn} {s s' : S} (hi : Inv ts s) (hd : s'.docs = s.docs)
    (hc : ∀ t, count s' t = count s t) : Inv ts s' :=
  ⟨hd ▸ hi.keys, fun p hp => hi.owned p (hd ▸ hp), fun t ht => by rw [hc, hd]; exact hi.exact t ht,
   fun t ht => by rw [hc]; exact hi.bounded t ht⟩

end KyroModel.Srv
