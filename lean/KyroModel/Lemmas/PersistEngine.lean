/-
Engine-level consequences: every operation preserves the engine invariant `EInv`, and at every
kill point inside it the disk recovers to the documents before or after the operation.
-/
import KyroModel.Lemmas.PersistOps

namespace KyroModel

/-- engine invariant at operation boundaries -/
def EInv (e : PEng) (d : Disk) : Prop := Frame e d e.store.docs e.nextSeq

/-- strict recovery of `d` yields `docs` (for some bound on the sequence numbers on disk) -/
def Rec (d : Disk) (docs : Docs) : Prop := ∃ ns, DInv d docs ns

theorem Frame.of_eq {e e' : PEng} {d : Disk} {docs : Docs} {ns : Nat} (f : Frame e d docs ns)
    (ha : e'.active = e.active) (hn : e'.nextName = e.nextName) : Frame e' d docs ns :=
  ⟨f.dinv, by rw [ha]; exact f.active, by rw [hn]; exact f.walNames, by rw [hn]; exact f.snapNames⟩

theorem Frame.congr {e : PEng} {d : Disk} {a b : Docs} {ns : Nat} (f : Frame e d a ns)
    (h : MapEq a b) : Frame e d b ns :=
  ⟨f.dinv.congr h, f.active, f.walNames, f.snapNames⟩

theorem maybeSnapshot_spec (e : PEng) (d : Disk) (h : EInv e d) :
    EInv (maybeSnapshot e d).1 (d.applyAll (maybeSnapshot e d).2) ∧
    AllPrefixes (fun d' => Rec d' e.store.docs) d (maybeSnapshot e d).2 ∧
    (maybeSnapshot e d).1.store = e.store ∧ (maybeSnapshot e d).1.cfg = e.cfg ∧
    (maybeSnapshot e d).1.degraded = e.degraded := by
  unfold maybeSnapshot
  split
  · have hs := snapshot_spec e d e.nextSeq h rfl
    refine ⟨?_, allPrefixes_mono (fun _ hd => ⟨_, hd⟩) _ _ hs.2.1, hs.2.2.1, hs.2.2.2.2.1, hs.2.2.2.2.2⟩
    unfold EInv
    rw [hs.2.2.1, hs.2.2.2.1]
    exact hs.1
  · exact ⟨h, ⟨_, h.dinv⟩, rfl, rfl, rfl⟩

/-- the common shape of insert / delete / metadata update: log one entry, apply it in memory,
    maybe snapshot -/
theorem write_spec (e : PEng) (d : Disk) (en : WEntry) (flen : Nat) (st' : AStore) (h : EInv e d)
    (hseq : en.seq = e.nextSeq) (hst : st'.docs = e.store.docs.apply en) :
    EInv (writeFlow e d en flen st').1 (d.applyAll (writeFlow e d en flen st').2) ∧
    AllPrefixes (fun d' => Rec d' e.store.docs ∨ Rec d' st'.docs) d (writeFlow e d en flen st').2 ∧
    (writeFlow e d en flen st').1.store = st' ∧ (writeFlow e d en flen st').1.cfg = e.cfg ∧
    (writeFlow e d en flen st').1.degraded = e.degraded := by
  unfold writeFlow
  simp only
  generalize hr1 : logEntry { e with nextSeq := e.nextSeq + 1 } d en flen = r1
  have f0 : Frame { e with nextSeq := e.nextSeq + 1 } d e.store.docs e.nextSeq :=
    Frame.of_eq h rfl rfl
  have hl := logEntry_spec _ d _ _ en flen f0 hseq
  rw [hr1] at hl
  generalize he2 : ({ r1.1 with store := st', since := r1.1.since + 1 } : PEng) = e2
  have he2inv : EInv e2 (d.applyAll r1.2) := by
    unfold EInv
    have h1 : e2.nextSeq = e.nextSeq + 1 := by rw [← he2]; exact hl.2.2.2.1
    have h2 : e2.store = st' := by rw [← he2]
    rw [h1, h2, hst]
    exact Frame.of_eq hl.1 (by rw [← he2]) (by rw [← he2])
  have hm := maybeSnapshot_spec e2 (d.applyAll r1.2) he2inv
  have hst2 : e2.store = st' := by rw [← he2]
  rw [applyAll_append]
  refine ⟨hm.1, ?_, by rw [hm.2.2.1, hst2], ?_, ?_⟩
  · apply allPrefixes_append
    · refine allPrefixes_mono ?_ _ _ hl.2.1
      intro d' hd'
      rcases hd' with hd' | hd'
      · exact Or.inl ⟨_, hd'⟩
      · exact Or.inr ⟨_, by rw [hst]; exact hd'⟩
    · refine allPrefixes_mono (fun _ hd' => Or.inr ?_) _ _ hm.2.1
      rw [← hst2]; exact hd'
  · rw [hm.2.2.2.1, ← he2]; exact hl.2.2.2.2.2.1
  · rw [hm.2.2.2.2, ← he2]; exact hl.2.2.2.2.2.2

theorem einv_afterCompaction (e : PEng) (d : Disk) (h : EInv e d) :
    EInv { e with store := afterCompaction e.store e.cfg.cap } d := by
  have : (afterCompaction e.store e.cfg.cap).docs = e.store.docs := by
    unfold afterCompaction; split <;> rfl
  unfold EInv
  show Frame _ d (afterCompaction e.store e.cfg.cap).docs e.nextSeq
  rw [this]
  exact Frame.of_eq h rfl rfl

/-- **insert / overwrite** (for every input the validators let through or refuse before
    logging; a refusal by the ANN index *after* the log append is excluded — unreachable for
    validated inputs since fix d09e19e, and observed 0 times by the correspondence run) -/
theorem pInsert_spec (e : PEng) (d : Disk) (id : Nat) (v : List Nat) (m : MetaMap) (acc : Accept)
    (flen fd : Nat) (h : EInv e d) (hacc : acc ≠ .index) :
    EInv (pInsert e d id v m acc flen fd).1 (d.applyAll (pInsert e d id v m acc flen fd).2.1) ∧
    AllPrefixes (fun d' => Rec d' e.store.docs ∨ Rec d' (pInsert e d id v m acc flen fd).1.store.docs)
      d (pInsert e d id v m acc flen fd).2.1 ∧
    ((pInsert e d id v m acc flen fd).2.2 = .ok →
      (pInsert e d id v m acc flen fd).1.store.docs = aset id (v, m) e.store.docs) ∧
    ((pInsert e d id v m acc flen fd).2.2 ≠ .ok →
      (pInsert e d id v m acc flen fd).1.store.docs = e.store.docs ∧
      (pInsert e d id v m acc flen fd).2.1 = []) := by
  have hcdocs : (afterCompaction e.store e.cfg.cap).docs = e.store.docs := by
    unfold afterCompaction; split <;> rfl
  unfold pInsert
  split
  · exact ⟨h, Or.inl ⟨_, h.dinv⟩, by simp, fun _ => ⟨rfl, rfl⟩⟩
  · split
    · exact ⟨h, Or.inl ⟨_, h.dinv⟩, by simp, fun _ => ⟨rfl, rfl⟩⟩
    · split
      · exact ⟨einv_afterCompaction e d h, Or.inl ⟨_, h.dinv⟩, by simp, fun _ => ⟨hcdocs, rfl⟩⟩
      · simp only [hacc, ↓reduceIte]
        have h0 := einv_afterCompaction e d h
        have hw := write_spec { e with store := afterCompaction e.store e.cfg.cap } d
          ⟨e.nextSeq, .insert, id, v, m⟩ flen
          ((afterCompaction e.store e.cfg.cap).insert id v m) h0 rfl rfl
        refine ⟨hw.1, ?_, ?_, ?_⟩
        · rw [hw.2.2.1]
          refine allPrefixes_mono ?_ _ _ hw.2.1
          intro d' hd'
          rcases hd' with hd' | hd'
          · left; rw [hcdocs] at hd'; exact hd'
          · right; exact hd'
        · intro _; rw [hw.2.2.1]; simp [AStore.insert, hcdocs]
        · intro hne; exact absurd rfl hne

/-- **delete** -/
theorem pDelete_spec (e : PEng) (d : Disk) (id flen : Nat) (h : EInv e d) :
    EInv (pDelete e d id flen).1 (d.applyAll (pDelete e d id flen).2.1) ∧
    AllPrefixes (fun d' => Rec d' e.store.docs ∨ Rec d' (pDelete e d id flen).1.store.docs)
      d (pDelete e d id flen).2.1 ∧
    ((pDelete e d id flen).2.2 = .bool true →
      (pDelete e d id flen).1.store.docs = aerase id e.store.docs) ∧
    ((pDelete e d id flen).2.2 ≠ .bool true →
      (pDelete e d id flen).1.store.docs = e.store.docs ∧ (pDelete e d id flen).2.1 = []) := by
  unfold pDelete
  split
  · exact ⟨h, Or.inl ⟨_, h.dinv⟩, by simp, fun _ => ⟨rfl, rfl⟩⟩
  · split
    · exact ⟨h, Or.inl ⟨_, h.dinv⟩, by simp, fun _ => ⟨rfl, rfl⟩⟩
    · have hw := write_spec e d ⟨e.nextSeq, .delete, id, [], []⟩ flen (e.store.delete id) h rfl rfl
      refine ⟨hw.1, by rw [hw.2.2.1]; exact hw.2.1, ?_, fun hne => absurd rfl hne⟩
      intro _; rw [hw.2.2.1]; rfl

/-- **metadata update** (the logged map is already merged) -/
theorem pUpdate_spec (e : PEng) (d : Disk) (id : Nat) (newMd : MetaMap) (flen : Nat) (h : EInv e d) :
    EInv (pUpdate e d id newMd flen).1 (d.applyAll (pUpdate e d id newMd flen).2.1) ∧
    AllPrefixes (fun d' => Rec d' e.store.docs ∨ Rec d' (pUpdate e d id newMd flen).1.store.docs)
      d (pUpdate e d id newMd flen).2.1 ∧
    ((pUpdate e d id newMd flen).2.2 ≠ .bool true →
      (pUpdate e d id newMd flen).1.store.docs = e.store.docs ∧ (pUpdate e d id newMd flen).2.1 = []) := by
  unfold pUpdate
  split
  · exact ⟨h, Or.inl ⟨_, h.dinv⟩, fun _ => ⟨rfl, rfl⟩⟩
  · split
    · exact ⟨h, Or.inl ⟨_, h.dinv⟩, fun _ => ⟨rfl, rfl⟩⟩
    · have hst : (e.store.updateMeta id newMd).docs =
          e.store.docs.apply ⟨e.nextSeq, .update, id, [], newMd⟩ := by
        unfold AStore.updateMeta Docs.apply
        simp only
        cases alookup id e.store.docs with
        | none => rfl
        | some p => rfl
      have hw := write_spec e d ⟨e.nextSeq, .update, id, [], newMd⟩ flen
        (e.store.updateMeta id newMd) h rfl hst
      exact ⟨hw.1, by rw [hw.2.2.1]; exact hw.2.1, fun hne => absurd rfl hne⟩

/-- **manual snapshot** -/
theorem pSnapshot_spec (e : PEng) (d : Disk) (h : EInv e d) :
    EInv (snapshot e d).1 (d.applyAll (snapshot e d).2) ∧
    AllPrefixes (fun d' => Rec d' e.store.docs) d (snapshot e d).2 ∧
    (snapshot e d).1.store = e.store := by
  have hs := snapshot_spec e d e.nextSeq h rfl
  refine ⟨?_, allPrefixes_mono (fun _ hd => ⟨_, hd⟩) _ _ hs.2.1, hs.2.2.1⟩
  unfold EInv
  rw [hs.2.2.1, hs.2.2.2.1]
  exact hs.1

/-! ### restart -/

theorem le_maxSeq (m : Nat) (es : List WEntry) : m ≤ maxSeq m es ∧ ∀ e ∈ es, e.seq ≤ maxSeq m es := by
  induction es generalizing m with
  | nil => exact ⟨Nat.le_refl _, by simp⟩
  | cons e rest ih =>
    simp only [maxSeq, List.foldl_cons]
    have := ih (max m e.seq)
    simp only [maxSeq] at this
    refine ⟨by omega, ?_⟩
    intro x hx
    rcases List.mem_cons.mp hx with h | h
    · subst h; omega
    · exact this.2 x h

/-- the invariant holds with the tight bound recovery computes -/
theorem dinv_tighten (d : Disk) (docs : Docs) (ns : Nat) (h : DInv d docs ns) :
    ∃ r mx, recover d = .ok (r, mx) ∧ MapEq r docs ∧ DInv d r (mx + 1) := by
  obtain ⟨m, hm, hs, hp, hr, hb, hsb, hss, hnd⟩ := h
  have hrec := recover_eq d m hm hs hp
  have hmax := le_maxSeq (snapBase d m).2 (listedEntries d m.segs)
  refine ⟨_, _, hrec, hr, m, hm, hs, hp, MapEq.refl _, ?_, ?_, hss, hnd⟩
  · intro e he
    exact ⟨(hb e he).1, by have := hmax.2 e he; omega⟩
  · omega

/-- **clean restart**: strict recovery succeeds, the recovered documents are the live ones, and
    the restarted engine satisfies the invariant again (so the argument repeats for any number
    of consecutive restarts) -/
theorem pRestart_spec (e : PEng) (d : Disk) (h : EInv e d) :
    ∃ e' as, pRestart e.cfg e.nextName d = .ok (e', as) ∧ MapEq e'.store.docs e.store.docs ∧
      EInv e' (d.applyAll as) ∧ AllPrefixes (fun d' => Rec d' e.store.docs) d as := by
  obtain ⟨r, mx, hrec, hreq, hd⟩ := dinv_tighten d _ _ h.dinv
  obtain ⟨m, hm, _⟩ := h.dinv
  unfold pRestart
  simp only [hrec, hm]
  refine ⟨_, _, rfl, hreq, ?_, ?_⟩
  · -- the two start-up actions: create the new segment, list it
    have hfresh : e.nextName ∉ m.segs := fun hh => Nat.lt_irrefl _ (h.listed_lt m hm _ hh)
    have h1 : DInv (d.apply (.walCreate e.nextName)) r (mx + 1) :=
      dinv_walCreate d r _ e.nextName hd (fun m' hm' => by rw [hm] at hm'; cases hm'; exact hfresh)
    have h2 : DInv ((d.apply (.walCreate e.nextName)).apply
        (.manifestPut { m with segs := m.segs ++ [e.nextName] })) r (mx + 1) :=
      dinv_addSeg _ r _ e.nextName m h1 hm hfresh ⟨{entries := []}, by simp [Disk.apply], rfl, rfl, rfl⟩
    unfold EInv
    refine ⟨h2, ?_, ?_, ?_⟩
    · intro m' hm'
      simp only [Disk.applyAll, List.foldl_cons, List.foldl_nil, Disk.apply, Option.some.injEq] at hm'
      subst hm'
      exact ⟨m.segs, rfl⟩
    · intro n hn
      simp only [Disk.applyAll, List.foldl_cons, List.foldl_nil, Disk.apply] at hn
      show n < e.nextName + 1
      rcases (mem_akeys_aset _ _ _ _).mp hn with hh | hh
      · omega
      · have := h.walNames n hh; omega
    · intro n hn
      simp only [Disk.applyAll, List.foldl_cons, List.foldl_nil, Disk.apply] at hn
      show n < e.nextName + 1
      have := h.snapNames n hn; omega
  · have hfresh : e.nextName ∉ m.segs := fun hh => Nat.lt_irrefl _ (h.listed_lt m hm _ hh)
    have h1 : DInv (d.apply (.walCreate e.nextName)) e.store.docs e.nextSeq :=
      dinv_walCreate d _ _ e.nextName h.dinv (fun m' hm' => by rw [hm] at hm'; cases hm'; exact hfresh)
    have h2 : DInv ((d.apply (.walCreate e.nextName)).apply
        (.manifestPut { m with segs := m.segs ++ [e.nextName] })) e.store.docs e.nextSeq :=
      dinv_addSeg _ _ _ e.nextName m h1 hm hfresh ⟨{entries := []}, by simp [Disk.apply], rfl, rfl, rfl⟩
    exact ⟨⟨_, h.dinv⟩, ⟨_, h1⟩, ⟨_, h2⟩⟩

/-- **initialisation** on an empty directory -/
theorem pInit_spec (cfg : PCfg) : EInv (pInit cfg).1 (emptyDisk.applyAll (pInit cfg).2) := by
  unfold EInv pInit
  refine ⟨⟨⟨none, none, [0]⟩, rfl, ?_, ?_, ?_, ?_, ?_, ?_, ?_⟩, ?_, ?_, ?_⟩
  · intro n hn
    simp only [List.mem_singleton] at hn; subst hn
    exact ⟨{entries := []}, by simp [Disk.applyAll, Disk.apply, emptyDisk], rfl, rfl⟩
  · intro n hn; cases hn
  · intro id; simp [snapBase, listedEntries, segEntries, Disk.applyAll, Disk.apply, emptyDisk, replay]
  · intro e he
    simp [listedEntries, segEntries, Disk.applyAll, Disk.apply, emptyDisk] at he
  · simp [snapBase]
  · intro s hs; cases hs
  · simp
  · intro m hm
    simp only [Disk.applyAll, List.foldl_cons, List.foldl_nil, Disk.apply, Option.some.injEq] at hm
    subst hm; exact ⟨[], rfl⟩
  · intro n hn
    simp [Disk.applyAll, Disk.apply, emptyDisk, akeys, aset, aerase] at hn
    show n < 1
    omega
  · intro n hn
    simp [Disk.applyAll, Disk.apply, emptyDisk, akeys] at hn

end KyroModel

namespace KyroModel

/-! ### batch delete -/

def eraseAll (docs : Docs) (ids : List Nat) : Docs := ids.foldl (fun d id => aerase id d) docs

/-- appending the Delete entries of a batch one frame at a time: after `k` frames the disk
    recovers to the documents with the first `k` requested ids removed -/
theorem batchAppend_spec (e : PEng) (ids : List Nat) (d : Disk) (docs : Docs) (ns : Nat)
    (f : Frame e d docs ns) :
    Frame e (d.applyAll ((batchEntries ns ids).map (Action.walAppend e.active)))
      (eraseAll docs ids) (ns + ids.length) ∧
    AllPrefixes (fun d' => ∃ k, k ≤ ids.length ∧ Rec d' (eraseAll docs (ids.take k))) d
      ((batchEntries ns ids).map (Action.walAppend e.active)) := by
  induction ids generalizing d docs ns with
  | nil =>
    exact ⟨by simpa [batchEntries, Disk.applyAll, eraseAll] using f,
           ⟨0, Nat.le_refl _, ⟨_, by simpa [eraseAll] using f.dinv⟩⟩⟩
  | cons id rest ih =>
    simp only [batchEntries, List.map_cons, applyAll_cons]
    have h1 : DInv (d.apply (.walAppend e.active ⟨ns, .delete, id, [], []⟩))
        (docs.apply ⟨ns, .delete, id, [], []⟩) (ns + 1) :=
      dinv_append d docs ns e.active _ f.dinv rfl f.active
    have f1 : Frame e (d.apply (.walAppend e.active ⟨ns, .delete, id, [], []⟩)) (aerase id docs) (ns + 1) := by
      refine ⟨h1, ?_, ?_, ?_⟩
      · intro m hm
        have : d.manifest = some m := by
          simp only [Disk.apply] at hm; split at hm <;> exact hm
        exact f.active m this
      · intro n hn
        simp only [Disk.apply] at hn
        split at hn
        · rename_i w hw
          rcases (mem_akeys_aset _ _ _ _).mp hn with h | h
          · rw [h]; exact f.walNames _ (mem_akeys_of_alookup _ w _ hw)
          · exact f.walNames n h
        · exact f.walNames n hn
      · intro n hn
        have : n ∈ akeys d.snaps := by
          simp only [Disk.apply] at hn; split at hn <;> exact hn
        exact f.snapNames n this
    have hrec := ih _ (aerase id docs) (ns + 1) f1
    refine ⟨?_, ⟨⟨0, Nat.zero_le _, ⟨_, by simpa [eraseAll] using f.dinv⟩⟩, ?_⟩⟩
    · have : ns + (id :: rest).length = ns + 1 + rest.length := by simp; omega
      rw [this]
      simpa [eraseAll] using hrec.1
    · refine allPrefixes_mono ?_ _ _ hrec.2
      rintro d' ⟨k, hk, hr⟩
      exact ⟨k + 1, by simp; omega, by simpa [eraseAll, List.take_succ_cons] using hr⟩

theorem foldl_delete_docs (ids : List Nat) (s : AStore) :
    (ids.foldl AStore.delete s).docs = eraseAll s.docs ids := by
  induction ids generalizing s with
  | nil => rfl
  | cons id rest ih => simp only [List.foldl_cons, eraseAll] at *; rw [ih]; rfl

theorem batchFlow_spec (e : PEng) (d : Disk) (occ : List Nat) (flen : Nat) (h : EInv e d) :
    EInv (batchFlow e d occ flen).1 (d.applyAll (batchFlow e d occ flen).2) ∧
    AllPrefixes (fun d' => ∃ k, Rec d' (eraseAll e.store.docs (occ.take k))) d (batchFlow e d occ flen).2 ∧
    (batchFlow e d occ flen).1.store.docs = eraseAll e.store.docs occ := by
  unfold batchFlow
  simp only
  have hA := batchAppend_spec e occ d e.store.docs e.nextSeq h
  generalize hdA : d.applyAll ((batchEntries e.nextSeq occ).map (Action.walAppend e.active)) = dA at hA
  generalize he1 : ({ e with nextSeq := e.nextSeq + occ.length, bytes := e.bytes + flen * occ.length } : PEng) = e1
  have f1 : Frame e1 dA (eraseAll e.store.docs occ) (e.nextSeq + occ.length) :=
    Frame.of_eq hA.1 (by rw [← he1]) (by rw [← he1])
  have hR := rotate_spec e1 dA _ _ f1
  generalize hr2 : rotate e1 dA = r2 at hR
  have hstore2 : r2.1.store = e.store := by rw [hR.2.2.1, ← he1]
  have hseq2 : r2.1.nextSeq = e.nextSeq + occ.length := by rw [hR.2.2.2.1, ← he1]
  generalize he3 : ({ r2.1 with store := occ.foldl AStore.delete r2.1.store, since := r2.1.since + occ.length } : PEng) = e3
  have hdocs3 : e3.store.docs = eraseAll e.store.docs occ := by
    rw [← he3]; simp only; rw [foldl_delete_docs, hstore2]
  have he3inv : EInv e3 (dA.applyAll r2.2) := by
    unfold EInv
    have h1 : e3.nextSeq = e.nextSeq + occ.length := by rw [← he3]; exact hseq2
    rw [h1, hdocs3]
    exact Frame.of_eq hR.1 (by rw [← he3]) (by rw [← he3])
  have hM := maybeSnapshot_spec e3 (dA.applyAll r2.2) he3inv
  have hd2 : d.applyAll ((batchEntries e.nextSeq occ).map (Action.walAppend e.active) ++ r2.2) = dA.applyAll r2.2 := by
    rw [applyAll_append, hdA]
  rw [hd2, applyAll_append, applyAll_append, hdA]
  refine ⟨hM.1, ?_, by rw [hM.2.2.1, hdocs3]⟩
  apply allPrefixes_append
  · apply allPrefixes_append
    · refine allPrefixes_mono ?_ _ _ hA.2
      rintro d' ⟨k, _, hr⟩
      exact ⟨k, hr⟩
    · rw [hdA]
      refine allPrefixes_mono ?_ _ _ hR.2.1
      intro d' hd'
      refine ⟨occ.length, ⟨e.nextSeq + occ.length, ?_⟩⟩
      rw [List.take_length]; exact hd'
  · rw [applyAll_append, hdA]
    refine allPrefixes_mono ?_ _ _ hM.2.1
    intro d' hd'
    refine ⟨occ.length, ?_⟩
    rw [List.take_length, ← hdocs3]; exact hd'

/-- **batch delete.**  Full statement for the operation boundary; at the kill points *inside*
    the batch the disk recovers to the documents with a *prefix* of the requested ids removed
    (one frame per id): the batch is not atomic w.r.t. a crash — known finding
    KF-C01-batch-delete-not-atomic. -/
theorem pBatchDelete_spec (e : PEng) (d : Disk) (ids : List Nat) (flen : Nat) (h : EInv e d) :
    EInv (pBatchDelete e d ids flen).1 (d.applyAll (pBatchDelete e d ids flen).2.1) ∧
    AllPrefixes (fun d' => ∃ k, Rec d' (eraseAll e.store.docs
        ((ids.filter fun id => e.store.has id).take k))) d (pBatchDelete e d ids flen).2.1 ∧
    ((pBatchDelete e d ids flen).2.2 = .err →
      (pBatchDelete e d ids flen).1.store.docs = e.store.docs ∧ (pBatchDelete e d ids flen).2.1 = []) ∧
    ((pBatchDelete e d ids flen).2.2 ≠ .err → (pBatchDelete e d ids flen).1.store.docs =
      eraseAll e.store.docs (ids.filter fun id => e.store.has id)) := by
  unfold pBatchDelete
  split
  · exact ⟨h, ⟨0, ⟨_, by simpa [eraseAll] using h.dinv⟩⟩, ⟨fun _ => ⟨rfl, rfl⟩, fun hne => absurd rfl hne⟩⟩
  · split
    · rename_i h0
      have : (ids.filter fun id => e.store.has id) = [] := List.eq_nil_of_length_eq_zero h0
      refine ⟨h, ⟨0, ⟨_, by simpa [eraseAll] using h.dinv⟩⟩, ⟨fun hh => by simp at hh, fun _ => ?_⟩⟩
      rw [this]; rfl
    · have hb := batchFlow_spec e d (ids.filter fun id => e.store.has id) flen h
      exact ⟨hb.1, hb.2.1, ⟨fun hh => by simp at hh, fun _ => hb.2.2⟩⟩

end KyroModel
