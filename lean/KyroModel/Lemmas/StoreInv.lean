/-
Store invariant `SI` (index = exactly the live slots' metadata; external→internal map sound;
metadata maps have unique keys) and its preservation by every store operation.
-/
import KyroModel.Lemmas.Compile

namespace KyroModel
open DocStore

def viewOf (slots : List Slot) : SlotView := ⟨liveAt slots, mdAt slots⟩

section
variable (parse : String → Option Nat)

structure SI (s : DocStore) : Prop where
  idx : IdxInv parse s.idx (viewOf s.slots)
  uniq : ∀ sl ∈ s.slots, UniqueKeys sl.md
  e2i : ∀ id o, alookup id s.e2i = some o → (s.slots[o]?.bind (·.ext)) = some id

theorem uniq_mdAt (slots : List Slot) (h : ∀ sl ∈ slots, UniqueKeys sl.md) (i : Nat) :
    UniqueKeys (mdAt slots i) := by
  unfold mdAt
  cases hg : slots[i]? with
  | none => simp [UniqueKeys]
  | some sl => simpa using h sl (List.mem_of_getElem? hg)

/-! ### how the view moves under the three slot updates -/

theorem view_append (slots : List Slot) (nw : Slot) (hn : nw.ext.isSome = true) (j : Nat) :
    (viewOf (slots ++ [nw])).live j = ((viewOf slots).setLive slots.length nw.md).live j ∧
    (viewOf (slots ++ [nw])).md j = ((viewOf slots).setLive slots.length nw.md).md j := by
  simp only [viewOf, liveAt, mdAt, SlotView.setLive]
  rcases Nat.lt_trichotomy j slots.length with h | h | h
  · have : j ≠ slots.length := by omega
    simp [List.getElem?_append_left h, this]
  · subst h
    simp [hn]
  · have : j ≠ slots.length := by omega
    have h1 : (slots ++ [nw])[j]? = none := by
      apply List.getElem?_eq_none; simp; omega
    have h2 : slots[j]? = none := List.getElem?_eq_none (by omega)
    simp [h1, h2, this]

theorem view_tombstone (slots : List Slot) (o j : Nat) :
    (viewOf (tombstone slots o)).live j = ((viewOf slots).setDead o).live j ∧
    (viewOf (tombstone slots o)).md j = ((viewOf slots).setDead o).md j := by
  simp only [viewOf, liveAt, mdAt, SlotView.setDead, tombstone, List.getElem?_modify]
  by_cases h : o = j
  · subst h
    cases slots[o]? <;> simp
  · have : j ≠ o := fun e => h e.symm
    simp [h, this]

theorem view_setMd (slots : List Slot) (o : Nat) (m : MetaMap) (hl : liveAt slots o = true) (j : Nat) :
    (viewOf (slots.modify o fun sl => { sl with md := m })).live j =
      (((viewOf slots).setDead o).setLive o m).live j ∧
    (viewOf (slots.modify o fun sl => { sl with md := m })).md j =
      (((viewOf slots).setDead o).setLive o m).md j := by
  simp only [viewOf, liveAt, mdAt, SlotView.setDead, SlotView.setLive, List.getElem?_modify]
  by_cases h : o = j
  · subst h
    unfold liveAt at hl
    cases hg : slots[o]? with
    | none => rw [hg] at hl; simp at hl
    | some sl => rw [hg] at hl; simp at hl ⊢; exact hl
  · have : j ≠ o := fun e => h e.symm
    simp [h, this]

theorem idxInv_of_pointwise {x : MetaIndex} {V W : SlotView} (h : IdxInv parse x V)
    (hw : ∀ j, W.live j = V.live j ∧ W.md j = V.md j) : IdxInv parse x W :=
  h.congr parse (fun j => (hw j).1) (fun j _ => (hw j).2)

theorem liveAt_of_e2i (s : DocStore) (id o : Nat)
    (he : ∀ id o, alookup id s.e2i = some o → (s.slots[o]?.bind (·.ext)) = some id)
    (h : alookup id s.e2i = some o) : liveAt s.slots o = true ∧ o < s.slots.length := by
  have := he id o h
  unfold liveAt
  rw [this]
  refine ⟨rfl, ?_⟩
  cases hg : s.slots[o]? with
  | none => rw [hg] at this; cases this
  | some sl => exact (List.getElem?_eq_some_iff.mp hg).1

theorem uniq_tombstone (slots : List Slot) (o : Nat) (h : ∀ sl ∈ slots, UniqueKeys sl.md) :
    ∀ sl ∈ tombstone slots o, UniqueKeys sl.md := by
  intro sl hsl
  unfold tombstone at hsl
  obtain ⟨i, hi, rfl⟩ := List.getElem_of_mem hsl
  rw [List.getElem_modify]
  split
  · simp [UniqueKeys]
  · exact h _ (List.getElem_mem _)

/-- ext of a slot after tombstoning another slot -/
theorem ext_tombstone_ne (slots : List Slot) (o j : Nat) (h : j ≠ o) :
    ((tombstone slots o)[j]?.bind (·.ext)) = (slots[j]?.bind (·.ext)) := by
  unfold tombstone
  rw [List.getElem?_modify]
  have : ¬ o = j := fun e => h e.symm
  simp [this]

/-- **accepted insert / overwrite** -/
theorem si_insertWith (s : DocStore) (id : Nat) (v : List Nat) (m : MetaMap) (ver : Nat)
    (hs : SI parse s) (hm : UniqueKeys m) : SI parse (s.insertWith parse id v m ver) := by
  unfold insertWith
  have hnlive : (viewOf s.slots).live s.slots.length = false := by
    simp [viewOf, liveAt]
  have h1 : IdxInv parse (s.idx.insertDoc parse s.slots.length m)
      (viewOf (s.slots ++ [(⟨v, m, ver, some id⟩ : Slot)])) :=
    idxInv_of_pointwise parse (idxInv_insertDoc parse _ _ _ m hs.idx hnlive)
      (fun j => view_append s.slots (⟨v, m, ver, some id⟩ : Slot) rfl j)
  have huq1 : ∀ sl ∈ s.slots ++ [(⟨v, m, ver, some id⟩ : Slot)], UniqueKeys sl.md := by
    intro sl hsl
    rcases List.mem_append.mp hsl with h | h
    · exact hs.uniq sl h
    · simp only [List.mem_singleton] at h; subst h; exact hm
  split
  · rename_i hold
    refine ⟨h1, huq1, ?_⟩
    intro id' o' hl
    simp only at hl ⊢
    by_cases hid : id' = id
    · subst hid
      simp only [alookup_aset_self, Option.some.injEq] at hl
      subst hl
      simp
    · rw [alookup_aset_ne id id' _ _ hid] at hl
      have := hs.e2i id' o' hl
      have hlt := (liveAt_of_e2i s id' o' hs.e2i hl).2
      rw [List.getElem?_append_left hlt]; exact this
  · rename_i o hold
    have ho := liveAt_of_e2i s id o hs.e2i hold
    have hmd : mdAt s.slots o = mdAt (s.slots ++ [(⟨v, m, ver, some id⟩ : Slot)]) o := by
      unfold mdAt; rw [List.getElem?_append_left ho.2]
    refine ⟨?_, uniq_tombstone _ o huq1, ?_⟩
    · refine idxInv_of_pointwise parse
        (idxInv_removeDoc parse _ _ o (mdAt s.slots o) h1 (fun _ => by rw [hmd]; rfl))
        (fun j => view_tombstone _ o j)
    · intro id' o' hl
      simp only at hl ⊢
      by_cases hid : id' = id
      · subst hid
        simp only [alookup_aset_self, Option.some.injEq] at hl
        subst hl
        have hne : s.slots.length ≠ o := by omega
        rw [ext_tombstone_ne _ o _ hne]
        simp
      · rw [alookup_aset_ne id id' _ _ hid] at hl
        have h' := hs.e2i id' o' hl
        have hlt := (liveAt_of_e2i s id' o' hs.e2i hl).2
        have hne : o' ≠ o := by
          intro e; subst e
          have := hs.e2i id o' hold
          rw [this] at h'; simp at h'; exact hid h'.symm
        rw [ext_tombstone_ne _ o _ hne, List.getElem?_append_left hlt]; exact h'

theorem si_insertCore (s : DocStore) (id : Nat) (v : List Nat) (m : MetaMap) (hs : SI parse s)
    (hm : UniqueKeys m) : SI parse (s.insertCore parse id v m) :=
  si_insertWith parse s id v m _ hs hm

/-- **delete** -/
theorem si_delete (s : DocStore) (id : Nat) (hs : SI parse s) : SI parse (s.delete parse id).1 := by
  unfold delete
  split
  · exact hs
  · rename_i o hold
    split
    · exact hs
    · refine ⟨?_, uniq_tombstone _ o hs.uniq, ?_⟩
      · exact idxInv_of_pointwise parse
          (idxInv_removeDoc parse _ _ o (mdAt s.slots o) hs.idx (fun _ => rfl))
          (fun j => view_tombstone _ o j)
      · intro id' o' hl
        simp only at hl ⊢
        by_cases hid : id' = id
        · subst hid; rw [alookup_aerase_self] at hl; cases hl
        · rw [alookup_aerase_ne id id' _ hid] at hl
          have h' := hs.e2i id' o' hl
          have hne : o' ≠ o := by
            intro e; subst e
            have := hs.e2i id o' hold
            rw [this] at h'; simp at h'; exact hid h'.symm
          rw [ext_tombstone_ne _ o _ hne]; exact h'

theorem si_batchDelete (s : DocStore) (ids : List Nat) (hs : SI parse s) :
    SI parse (s.batchDelete parse ids).1 := by
  unfold batchDelete
  suffices h : ∀ (acc : DocStore × Nat), SI parse acc.1 →
      SI parse (ids.foldl (fun acc id =>
        let (s1, b) := acc.1.delete parse id
        (s1, if b then acc.2 + 1 else acc.2)) acc).1 from h (s, 0) hs
  induction ids with
  | nil => intro acc h; exact h
  | cons i rest ih =>
    intro acc h
    rw [List.foldl_cons]
    apply ih
    exact si_delete parse acc.1 i h

/-- **metadata update** -/
theorem si_updateMeta (s : DocStore) (id : Nat) (m : MetaMap) (hs : SI parse s)
    (hm : UniqueKeys m) : SI parse (s.updateMeta parse id m).1 := by
  unfold updateMeta
  split
  · exact hs
  · rename_i o hold
    have ho := liveAt_of_e2i s id o hs.e2i hold
    refine ⟨?_, ?_, ?_⟩
    · exact idxInv_of_pointwise parse
        (idxInv_replaceDoc parse _ _ o (mdAt s.slots o) m hs.idx (fun _ => rfl))
        (fun j => view_setMd s.slots o m ho.1 j)
    · intro sl hsl
      simp only at hsl
      obtain ⟨i, hi, rfl⟩ := List.getElem_of_mem hsl
      rw [List.getElem_modify]
      split
      · exact hm
      · exact hs.uniq _ (List.getElem_mem _)
    · intro id' o' hl
      simp only at hl ⊢
      have h' := hs.e2i id' o' hl
      rw [List.getElem?_modify]
      by_cases he : o = o'
      · subst he
        cases hg : s.slots[o]? with
        | none => rw [hg] at h'; cases h'
        | some sl => rw [hg] at h'; simpa using h'
      · simp [he]; exact h'

/-! ### rebuild and compaction -/

def viewUpto (slots : List Slot) (n : Nat) : SlotView :=
  ⟨fun j => decide (j < n) && liveAt slots j, mdAt slots⟩

theorem idxInv_rebuild_upto (slots : List Slot) (n : Nat) :
    IdxInv parse ((List.range n).foldl
      (fun x i => if liveAt slots i then x.insertDoc parse i (mdAt slots i) else x) MetaIndex.empty)
      (viewUpto slots n) := by
  induction n with
  | zero =>
    simp only [List.range_zero, List.foldl_nil]
    exact (idxInv_empty parse).congr parse (fun j => by simp [viewUpto]) (fun j h => by simp at h)
  | succ n ih =>
    rw [List.range_succ, List.foldl_append]
    simp only [List.foldl_cons, List.foldl_nil]
    split
    · rename_i hl
      refine idxInv_of_pointwise parse
        (idxInv_insertDoc parse _ _ n (mdAt slots n) ih (by simp [viewUpto])) ?_
      intro j
      simp only [viewUpto, SlotView.setLive]
      by_cases hj : j = n
      · subst hj; simp [hl]
      · simp only [hj, ↓reduceIte, and_true]
        have : (j < n + 1) = (j < n) := by apply propext; omega
        simp [this]
    · rename_i hl
      refine idxInv_of_pointwise parse ih ?_
      intro j
      simp only [viewUpto, and_true]
      by_cases hj : j = n
      · subst hj; simp [hl]
      · have : (j < n + 1) = (j < n) := by apply propext; omega
        simp [this]

theorem idxInv_rebuild (slots : List Slot) : IdxInv parse (rebuildIdx parse slots) (viewOf slots) := by
  unfold rebuildIdx
  refine idxInv_of_pointwise parse (idxInv_rebuild_upto parse slots slots.length) ?_
  intro j
  simp only [viewOf, viewUpto, and_true]
  by_cases hj : j < slots.length
  · simp [hj]
  · have : slots[j]? = none := List.getElem?_eq_none (by omega)
    simp [liveAt, this]

theorem mem_of_alookup {α : Type} (k : Nat) (v : α) (l : List (Nat × α)) (h : alookup k l = some v) :
    (k, v) ∈ l := by
  induction l with
  | nil => simp at h
  | cons p rest ih =>
    obtain ⟨k', v'⟩ := p
    by_cases hk : k' = k
    · simp [hk] at h; subst hk; subst h; exact List.mem_cons_self ..
    · simp [hk] at h; exact List.mem_cons_of_mem _ (ih h)

/-- **tombstone compaction** -/
theorem si_compact (s : DocStore) (hs : SI parse s) : SI parse (s.compact parse) := by
  unfold compact
  refine ⟨idxInv_rebuild parse _, ?_, ?_⟩
  · intro sl hsl
    exact hs.uniq sl (List.mem_filter.mp hsl).1
  · intro id o hl
    have := mem_of_alookup id o _ hl
    simp only [List.mem_filterMap, List.mem_range, Option.map_eq_some_iff, Prod.mk.injEq] at this
    obtain ⟨i, _, id', hid, rfl, rfl⟩ := this
    exact hid

/-- **insert with index-full handling** -/
theorem si_insert (s : DocStore) (id : Nat) (v : List Nat) (m : MetaMap) (hs : SI parse s)
    (hm : UniqueKeys m) : SI parse (s.insert parse id v m).1 := by
  unfold DocStore.insert
  split
  · split
    · simp only
      split
      · exact si_compact parse s hs
      · exact si_insertCore parse _ id v m (si_compact parse s hs) hm
    · exact hs
  · exact si_insertCore parse s id v m hs hm

theorem si_empty (cap : Nat) : SI parse (DocStore.empty cap) :=
  ⟨(idxInv_empty parse).congr parse (fun j => by simp [viewOf, liveAt, DocStore.empty]) (fun j h => by simp at h),
   by simp [DocStore.empty], by simp [DocStore.empty]⟩

end
end KyroModel
