/-
The conservation law of a token bucket: tokens consumed plus tokens left never exceed tokens
at the start plus rate × elapsed time.
-/
import KyroModel.Server.RateLimit

namespace KyroModel
namespace Bucket

/-- `b'` is reachable from `b` having admitted `n` requests -/
structure Rel (G : Nat) (b b' : Bucket) (n : Nat) : Prop where
  cap : b'.cap = b.cap
  rate : b'.rate = b.rate
  time : b.last ≤ b'.last
  conserve : n * G + b'.tokens ≤ b.tokens + (b'.last - b.last) * b.rate
  capped : b'.tokens ≤ b'.cap * G

theorem Rel.refl (G : Nat) (b : Bucket) (h : b.tokens ≤ b.cap * G) : Rel G b b 0 :=
  ⟨rfl, rfl, Nat.le_refl _, by simp, h⟩

theorem Rel.trans {G : Nat} {a b c : Bucket} {n m : Nat} (h1 : Rel G a b n) (h2 : Rel G b c m) :
    Rel G a c (n + m) := by
  refine ⟨h2.cap.trans h1.cap, h2.rate.trans h1.rate, Nat.le_trans h1.time h2.time, ?_, h2.capped⟩
  have e1 := h1.conserve
  have e2 := h2.conserve
  rw [h1.rate] at e2
  have ht1 := h1.time
  have ht2 := h2.time
  have hsplit : (c.last - a.last) * a.rate = (b.last - a.last) * a.rate + (c.last - b.last) * a.rate := by
    rw [← Nat.add_mul]; congr 1; omega
  rw [hsplit, Nat.add_mul]
  omega

theorem rel_refill (G : Nat) (b : Bucket) (now : Nat) (h : b.tokens ≤ b.cap * G) (hnow : b.last ≤ now) :
    Rel G b (b.refill G now) 0 := by
  unfold refill
  split
  · refine ⟨rfl, rfl, by simp only; omega, ?_, by simp only; exact Nat.min_le_left _ _⟩
    show 0 * G + min (b.cap * G) (b.tokens + (now - b.last) * b.rate) ≤ b.tokens + (now - b.last) * b.rate
    have := Nat.min_le_right (b.cap * G) (b.tokens + (now - b.last) * b.rate)
    omega
  · exact Rel.refl G b h

theorem refill_last (G : Nat) (b : Bucket) (now : Nat) (hnow : b.last ≤ now) :
    (b.refill G now).last = now := by
  unfold refill; split
  · rfl
  · omega

theorem refill_idem (G : Nat) (b : Bucket) (now : Nat) (hnow : b.last ≤ now) :
    (b.refill G now).refill G now = b.refill G now := by
  have hl := refill_last G b now hnow
  generalize b.refill G now = b1 at hl ⊢
  unfold refill
  have : ¬ now > b1.last := by omega
  rw [if_neg this]

/-- one `try_consume` at a clock reading not before the last one -/
theorem rel_tryConsume (G : Nat) (b : Bucket) (now : Nat) (h : b.tokens ≤ b.cap * G)
    (hnow : b.last ≤ now) :
    Rel G b (b.tryConsume G now).1 (if (b.tryConsume G now).2 then 1 else 0) := by
  have hr := rel_refill G b now h hnow
  unfold tryConsume
  split
  · rename_i hge
    refine ⟨hr.cap, hr.rate, hr.time, ?_, ?_⟩
    · have := hr.conserve
      simp only [Nat.zero_mul, Nat.zero_add] at this
      simp only [↓reduceIte, Nat.one_mul]
      omega
    · have := hr.capped
      simp only at this ⊢
      omega
  · simpa using hr

theorem rel_refund (G : Nat) (b b' : Bucket) (n : Nat) (h : Rel G b b' (n + 1)) :
    Rel G b (b'.refundOne G) n := by
  refine ⟨h.cap, h.rate, h.time, ?_, by simp only [refundOne]; exact Nat.min_le_left _ _⟩
  have := h.conserve
  simp only [refundOne]
  have : min (b'.cap * G) (b'.tokens + G) ≤ b'.tokens + G := Nat.min_le_right _ _
  have e : (n + 1) * G = n * G + G := by rw [Nat.add_mul, Nat.one_mul]
  omega

end Bucket
end KyroModel
