/-
Lemmas for the backup model: insertion sort on sorted input, overlay lookups, ancestor chains.
-/
import KyroModel.Persist.Backup
import KyroModel.Lemmas.Damage

namespace KyroModel

theorem mem_insertAsc (x y : Nat) (l : List Nat) : y ∈ insertAsc x l ↔ y = x ∨ y ∈ l := by
  induction l with
  | nil => simp [insertAsc]
  | cons z zs ih =>
    simp only [insertAsc]
    split
    · simp
    · simp only [List.mem_cons, ih]
      constructor
      · rintro (h | h | h)
        · exact Or.inr (Or.inl h)
        · exact Or.inl h
        · exact Or.inr (Or.inr h)
      · rintro (h | h | h)
        · exact Or.inr (Or.inl h)
        · exact Or.inl h
        · exact Or.inr (Or.inr h)

theorem mem_sortAsc (y : Nat) (l : List Nat) : y ∈ sortAsc l ↔ y ∈ l := by
  induction l with
  | nil => simp [sortAsc]
  | cons x xs ih =>
    have : sortAsc (x :: xs) = insertAsc x (sortAsc xs) := rfl
    rw [this, mem_insertAsc, ih]
    simp

/-- strictly ascending -/
def Asc (l : List Nat) : Prop := l.Pairwise (· < ·)

theorem sortAsc_of_asc (l : List Nat) (h : Asc l) : sortAsc l = l := by
  induction l with
  | nil => rfl
  | cons x xs ih =>
    have hx := List.pairwise_cons.mp h
    have : sortAsc (x :: xs) = insertAsc x (sortAsc xs) := rfl
    rw [this, ih hx.2]
    cases xs with
    | nil => rfl
    | cons y ys =>
      have : x < y := hx.1 y (List.mem_cons_self ..)
      simp [insertAsc, Nat.le_of_lt this]

theorem dedupAdj_of_asc (l : List Nat) (h : Asc l) : dedupAdj l = l := by
  induction l with
  | nil => rfl
  | cons x xs ih =>
    have hx := List.pairwise_cons.mp h
    cases xs with
    | nil => rfl
    | cons y ys =>
      have hlt : x < y := hx.1 y (List.mem_cons_self ..)
      have : x ≠ y := Nat.ne_of_lt hlt
      simp only [dedupAdj, this, ↓reduceIte]
      rw [ih hx.2]

/-- nothing to add: every discovered segment is already listed, and the list is ascending -/
theorem rewriteSegs_id (listed discovered : List Nat) (hasc : Asc listed)
    (hsub : ∀ n ∈ discovered, n ∈ listed) : rewriteSegs listed discovered = listed := by
  unfold rewriteSegs
  have : discovered.filter (fun n => !listed.contains n) = [] := by
    rw [List.filter_eq_nil_iff]
    intro n hn
    simp [hsub n hn]
  rw [this, List.append_nil, sortAsc_of_asc _ hasc, dedupAdj_of_asc _ hasc]

/-! ### overlay -/

def ovl {α : Type} (acc : List (Nat × α)) (l : List (Nat × α)) : List (Nat × α) :=
  l.foldl (fun acc (p : Nat × α) => aset p.1 p.2 acc) acc

theorem ovl_not_mem {α : Type} (n : Nat) (l acc : List (Nat × α)) (h : n ∉ l.map (·.1)) :
    alookup n (ovl acc l) = alookup n acc := by
  induction l generalizing acc with
  | nil => rfl
  | cons p rest ih =>
    simp only [List.map_cons, List.mem_cons, not_or] at h
    simp only [ovl, List.foldl_cons]
    have := ih (aset p.1 p.2 acc) h.2
    simp only [ovl] at this
    rw [this, alookup_aset_ne p.1 n _ _ h.1]

/-- every shipped pair agrees with the source map `src`: after the overlay, shipped keys read as
    in the source -/
theorem ovl_mem {α : Type} (src : List (Nat × α)) (n : Nat) (l acc : List (Nat × α))
    (hcons : ∀ p ∈ l, alookup p.1 src = some p.2) (h : n ∈ l.map (·.1)) :
    alookup n (ovl acc l) = alookup n src := by
  induction l generalizing acc with
  | nil => simp at h
  | cons p rest ih =>
    simp only [ovl, List.foldl_cons]
    by_cases hr : n ∈ rest.map (·.1)
    · have := ih (aset p.1 p.2 acc) (fun q hq => hcons q (List.mem_cons_of_mem _ hq)) hr
      simpa [ovl] using this
    · have hn : n = p.1 := by
        simp only [List.map_cons, List.mem_cons] at h
        rcases h with h | h
        · exact h
        · exact (hr h).elim
      have := ovl_not_mem n rest (aset p.1 p.2 acc) hr
      simp only [ovl] at this
      rw [this, hn, alookup_aset_self, hcons p (List.mem_cons_self ..)]

theorem shipWals_consistent (d : Disk) (names : List Nat) :
    ∀ p ∈ shipWals d names, alookup p.1 d.wals = some p.2 := by
  intro p hp
  simp only [shipWals, List.mem_filterMap] at hp
  obtain ⟨n, _, hn⟩ := hp
  cases hl : alookup n d.wals with
  | none => simp [hl] at hn
  | some w =>
    simp only [hl, Option.map_some, Option.some.injEq] at hn
    subst hn
    exact hl

theorem shipWals_keys (d : Disk) (names : List Nat) (n : Nat) (hn : n ∈ names)
    (hw : (alookup n d.wals).isSome) : n ∈ (shipWals d names).map (·.1) := by
  simp only [shipWals, List.mem_map, List.mem_filterMap]
  cases hl : alookup n d.wals with
  | none => simp [hl] at hw
  | some w => exact ⟨(n, w), ⟨n, hn, by simp [hl]⟩, rfl⟩

theorem shipWals_keys_sub (d : Disk) (names : List Nat) (n : Nat)
    (h : n ∈ (shipWals d names).map (·.1)) : n ∈ names := by
  simp only [shipWals, List.mem_map, List.mem_filterMap] at h
  obtain ⟨p, ⟨k, hk, hkp⟩, hp⟩ := h
  cases hl : alookup k d.wals with
  | none => simp [hl] at hkp
  | some w =>
    simp only [hl, Option.map_some, Option.some.injEq] at hkp
    subst hkp
    simp only at hp
    exact hp ▸ hk

theorem overlay_wals (t : Disk) (b : Backup) : (overlay t b).wals = ovl t.wals b.wals := by
  simp only [overlay, ovl]

theorem overlay_snaps (t : Disk) (b : Backup) : (overlay t b).snaps = ovl t.snaps b.snaps := by
  simp only [overlay, ovl]

/-! ### ancestor chains -/

/-- parents were created before their children -/
def ParentsBefore (bs : List Backup) : Prop :=
  ∀ (i : Nat) (b : Backup) (p : Nat), bs[i]? = some b → b.parent = some p → p < i

theorem chainUp_closed (bs : List Backup) (hwf : ParentsBefore bs) :
    ∀ (f r : Nat), r < f → ∀ i ∈ chainUp bs f r, ∀ (b : Backup) (p : Nat), bs[i]? = some b →
      b.parent = some p → p ∈ chainUp bs f r := by
  intro f
  induction f with
  | zero => intro r hr; omega
  | succ f ih =>
    intro r hr i hi b p hb hp
    simp only [chainUp, List.mem_cons] at hi ⊢
    rcases hi with rfl | hi
    · -- i is the head: its parent heads the tail
      right
      simp only [hb, hp]
      have hlt : p < i := hwf i b p hb hp
      have hf : 0 < f := by omega
      obtain ⟨f', rfl⟩ : ∃ f', f = f' + 1 := ⟨f - 1, by omega⟩
      simp [chainUp]
    · right
      cases hr' : bs[r]? with
      | none => simp [hr'] at hi
      | some br =>
        cases hpr : br.parent with
        | none => simp [hr', hpr] at hi
        | some pr =>
          simp only [hr', hpr] at hi ⊢
          have : pr < r := hwf r br pr hr' hpr
          exact ih pr (by omega) i hi b p hb hp

theorem newestOf_mem (bs : List Backup) (cands : List Nat) (w : Nat)
    (h : newestOf bs cands = some w) : w ∈ cands := by
  unfold newestOf at h
  have key : ∀ (l : List Nat) (init : Option Nat) (w : Nat),
      l.foldl (fun best i =>
        match best with
        | none => some i
        | some j => if ((bs[j]?.map (·.ts)).getD 0) < ((bs[i]?.map (·.ts)).getD 0) then some i else some j)
        init = some w → w ∈ l ∨ init = some w := by
    intro l
    induction l with
    | nil => intro init w h; exact Or.inr h
    | cons x xs ih =>
      intro init w h
      simp only [List.foldl_cons] at h
      rcases ih _ w h with h1 | h1
      · exact Or.inl (List.mem_cons_of_mem _ h1)
      · cases init with
        | none => simp at h1; exact Or.inl (h1 ▸ List.mem_cons_self ..)
        | some j =>
          simp only at h1
          split at h1
          · simp at h1; exact Or.inl (h1 ▸ List.mem_cons_self ..)
          · exact Or.inr h1
  rcases key cands none w h with h1 | h1
  · exact h1
  · cases h1

end KyroModel
