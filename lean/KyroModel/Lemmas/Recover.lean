/-
Strict recovery of a well-formed disk is the replay of the listed entries over the snapshot.
-/
import KyroModel.Persist.Model

namespace KyroModel

/-- equality of documents as maps (lookup-extensional) -/
def MapEq (a b : Docs) : Prop := ∀ id, alookup id a = alookup id b

theorem MapEq.refl (a : Docs) : MapEq a a := fun _ => rfl
theorem MapEq.symm {a b : Docs} (h : MapEq a b) : MapEq b a := fun id => (h id).symm
theorem MapEq.trans {a b c : Docs} (h1 : MapEq a b) (h2 : MapEq b c) : MapEq a c :=
  fun id => (h1 id).trans (h2 id)

def segEntries (d : Disk) (n : Nat) : List WEntry := ((alookup n d.wals).map (·.entries)).getD []

def listedEntries (d : Disk) (segs : List Nat) : List WEntry := segs.flatMap (segEntries d)

/-- every listed segment exists and is clean -/
def SegsOk (d : Disk) (segs : List Nat) : Prop :=
  ∀ n ∈ segs, ∃ w, alookup n d.wals = some w ∧ w.corrupted = 0 ∧ w.badMagic = false

/-- the pointed snapshot (if any) exists and is readable -/
def SnapOk (d : Disk) (m : Manifest) : Prop :=
  ∀ n, m.snap = some n → ∃ s, alookup n d.snaps = some (some s)

/-- documents and sequence number recovery starts from -/
def snapBase (d : Disk) (m : Manifest) : Docs × Nat :=
  match m.snap with
  | none => ([], 0)
  | some n =>
    match alookup n d.snaps with
    | some (some s) => (s.docs, s.lastSeq)
    | _ => ([], 0)

theorem replay_append (base : Docs) (sq : Nat) (a b : List WEntry) :
    replay base sq (a ++ b) = replay (replay base sq a) sq b := by
  simp [replay, List.foldl_append]

theorem maxSeq_append (m : Nat) (a b : List WEntry) :
    maxSeq m (a ++ b) = maxSeq (maxSeq m a) b := by
  simp [maxSeq, List.foldl_append]

theorem recover_fold (d : Disk) (sq : Nat) (segs : List Nat) (docs : Docs) (mx : Nat)
    (h : SegsOk d segs) :
    segs.foldl
      (fun (acc : Except RecErr (Docs × Nat)) n =>
        match acc with
        | .error e => .error e
        | .ok (docs, mx) =>
          match alookup n d.wals with
          | none => .error (.missingSegment n)
          | some w =>
            if w.badMagic then .error (.badMagic n)
            else if w.corrupted > 0 then .error (.corruptFrames n)
            else .ok (replay docs sq w.entries, maxSeq mx w.entries))
      (.ok (docs, mx))
    = .ok (replay docs sq (listedEntries d segs), maxSeq mx (listedEntries d segs)) := by
  induction segs generalizing docs mx with
  | nil => simp [listedEntries, replay, maxSeq]
  | cons n rest ih =>
    obtain ⟨w, hw, hc, hb⟩ := h n (List.mem_cons_self ..)
    simp only [List.foldl_cons, hw, hb, hc, Bool.false_eq_true, ↓reduceIte, Nat.lt_irrefl]
    rw [ih _ _ (fun k hk => h k (List.mem_cons_of_mem _ hk))]
    have : listedEntries d (n :: rest) = w.entries ++ listedEntries d rest := by
      simp [listedEntries, segEntries, hw]
    rw [this, replay_append, maxSeq_append]

/-- **Recovery of a well-formed disk.** -/
theorem recover_eq (d : Disk) (m : Manifest) (hm : d.manifest = some m) (hs : SegsOk d m.segs)
    (hp : SnapOk d m) :
    recover d = .ok (replay (snapBase d m).1 (snapBase d m).2 (listedEntries d m.segs),
                     maxSeq (snapBase d m).2 (listedEntries d m.segs)) := by
  unfold recover
  simp only [hm]
  cases hsn : m.snap with
  | none =>
    simp only [snapBase, hsn]
    exact recover_fold d 0 m.segs [] 0 hs
  | some n =>
    obtain ⟨s, hsf⟩ := hp n hsn
    simp only [snapBase, hsn, hsf, loadSnapshot]
    exact recover_fold d s.lastSeq m.segs s.docs s.lastSeq hs

/-! ### replay facts -/

theorem Docs.apply_congr {a b : Docs} (h : MapEq a b) (e : WEntry) : MapEq (a.apply e) (b.apply e) := by
  intro id
  unfold Docs.apply
  cases e.op with
  | insert =>
    by_cases hid : id = e.id
    · subst hid; simp
    · simp only [alookup_aset_ne e.id id _ _ hid]; exact h id
  | delete =>
    by_cases hid : id = e.id
    · subst hid; simp [alookup_aerase_self]
    · simp only [alookup_aerase_ne e.id id _ hid]; exact h id
  | update =>
    simp only
    rw [h e.id]
    cases alookup e.id b with
    | none => exact h id
    | some p =>
      obtain ⟨v, _⟩ := p
      simp only
      by_cases hid : id = e.id
      · subst hid; simp
      · simp only [alookup_aset_ne e.id id _ _ hid]; exact h id

theorem replay_cons (base : Docs) (sq : Nat) (e : WEntry) (rest : List WEntry) :
    replay base sq (e :: rest) =
      replay (if sq > 0 ∧ e.seq > 0 ∧ e.seq ≤ sq then base else base.apply e) sq rest := rfl

theorem replay_congr {a b : Docs} (h : MapEq a b) (sq : Nat) (es : List WEntry) :
    MapEq (replay a sq es) (replay b sq es) := by
  induction es generalizing a b with
  | nil => exact h
  | cons e rest ih =>
    rw [replay_cons, replay_cons]
    split
    · exact ih h
    · exact ih (Docs.apply_congr h e)

/-- entries the snapshot covers are skipped -/
theorem replay_all_covered (base : Docs) (sq : Nat) (es : List WEntry)
    (h : ∀ e ∈ es, 0 < e.seq ∧ e.seq ≤ sq) : replay base sq es = base := by
  induction es with
  | nil => rfl
  | cons e rest ih =>
    have he := h e (List.mem_cons_self ..)
    have : sq > 0 ∧ e.seq > 0 ∧ e.seq ≤ sq := ⟨by omega, he.1, he.2⟩
    rw [replay_cons, if_pos this]
    exact ih (fun x hx => h x (List.mem_cons_of_mem _ hx))

/-- entries newer than the snapshot are all applied -/
theorem replay_none_covered (base : Docs) (sq : Nat) (es : List WEntry)
    (h : ∀ e ∈ es, sq < e.seq) : replay base sq es = es.foldl Docs.apply base := by
  induction es generalizing base with
  | nil => rfl
  | cons e rest ih =>
    have he := h e (List.mem_cons_self ..)
    have : ¬ (sq > 0 ∧ e.seq > 0 ∧ e.seq ≤ sq) := by omega
    rw [replay_cons, if_neg this, List.foldl_cons]
    exact ih _ (fun x hx => h x (List.mem_cons_of_mem _ hx))

theorem replay_snoc_new (base : Docs) (sq : Nat) (es : List WEntry) (e : WEntry) (h : sq < e.seq) :
    replay base sq (es ++ [e]) = (replay base sq es).apply e := by
  have : ¬ (sq > 0 ∧ e.seq > 0 ∧ e.seq ≤ sq) := by omega
  rw [replay_append, replay_cons, if_neg this]
  rfl

end KyroModel
