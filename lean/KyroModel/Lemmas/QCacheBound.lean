/-
Structural invariant of the query-result cache model: unique keys, at most `max cap 1` entries.
-/
import KyroModel.Tiered.QueryCache

namespace KyroModel
namespace QCache

def keys (es : List QEntry) : List QKey := es.map (·.key)

def Inv (c : QCache) : Prop := (keys c.entries).Nodup ∧ c.entries.length ≤ max c.cap 1

theorem inv_init (cap : Nat) : (init cap).Inv := by
  simp [init, Inv, keys]

theorem keys_without (es : List QEntry) (k : QKey) :
    keys (without es k) = (keys es).filter (fun x => !(x == k)) := by
  induction es with
  | nil => rfl
  | cons e rest ih =>
    simp only [without, keys, List.filter, List.map] at *
    cases h : (e.key == k) <;> simp [h, ih]

theorem not_mem_keys_without (es : List QEntry) (k : QKey) : k ∉ keys (without es k) := by
  rw [keys_without]; simp

theorem nodup_without (es : List QEntry) (k : QKey) (h : (keys es).Nodup) :
    (keys (without es k)).Nodup := by
  rw [keys_without]; exact h.filter _

theorem length_without_le (es : List QEntry) (k : QKey) : (without es k).length ≤ es.length :=
  List.length_filter_le _ _

theorem find?_some_mem (es : List QEntry) (k : QKey) (e : QEntry)
    (h : es.find? (·.key == k) = some e) : e ∈ es ∧ e.key = k := by
  have h1 := List.mem_of_find?_eq_some h
  have h2 := List.find?_some h
  exact ⟨h1, by simpa using h2⟩

theorem length_without_lt (es : List QEntry) (k : QKey) (e : QEntry)
    (h : es.find? (·.key == k) = some e) : (without es k).length < es.length := by
  obtain ⟨hm, hk⟩ := find?_some_mem es k e h
  unfold without
  apply List.length_filter_lt_length_iff_exists.mpr
  exact ⟨e, hm, by simp [hk]⟩

theorem find?_none_not_mem (es : List QEntry) (k : QKey)
    (h : es.find? (·.key == k) = none) : k ∉ keys es := by
  intro hm
  simp only [keys, List.mem_map] at hm
  obtain ⟨e, he, hk⟩ := hm
  have := List.find?_eq_none.mp h e he
  simp [hk] at this

theorem nodup_append_single (es : List QEntry) (e : QEntry) (h : (keys es).Nodup)
    (hk : e.key ∉ keys es) : (keys (es ++ [e])).Nodup := by
  simp only [keys, List.map_append, List.map_cons, List.map_nil] at *
  rw [List.nodup_append]
  refine ⟨h, by simp, ?_⟩
  intro a ha b hb
  simp at hb; subst hb
  intro e'; subst e'; exact hk ha

theorem nodup_keys_tail (es : List QEntry) (h : (keys es).Nodup) : (keys es.tail).Nodup := by
  cases es with
  | nil => simpa using h
  | cons p rest => simp [keys] at h ⊢; exact h.2

theorem mem_keys_tail (es : List QEntry) (k : QKey) (h : k ∈ keys es.tail) : k ∈ keys es := by
  cases es with
  | nil => simpa using h
  | cons p rest => simp [keys] at h ⊢; exact Or.inr h

/-- replacing / re-appending the entry of an existing key keeps the invariant -/
theorem inv_readd (c : QCache) (k : QKey) (old e : QEntry) (hk : e.key = k)
    (hf : c.find? k = some old) (h : c.Inv) :
    ({ c with entries := without c.entries k ++ [e] } : QCache).Inv := by
  obtain ⟨hn, hl⟩ := h
  refine ⟨?_, ?_⟩
  · apply nodup_append_single _ _ (nodup_without _ _ hn)
    rw [hk]; exact not_mem_keys_without _ _
  · have := length_without_lt c.entries k old hf
    simp only [List.length_append, List.length_cons, List.length_nil]
    omega

theorem inv_touch (c : QCache) (k : QKey) (h : c.Inv) : (c.touch k).Inv := by
  unfold touch
  split
  · rename_i e hf
    exact inv_readd c k e e (find?_some_mem _ _ _ hf).2 hf h
  · exact h

@[simp] theorem cap_touch (c : QCache) (k : QKey) : (c.touch k).cap = c.cap := by
  unfold touch; split <;> rfl

theorem inv_store (c : QCache) (k : QKey) (q : List Nat) (r : Nat) (res : List (Nat × Nat))
    (g : Option Nat) (h : c.Inv) :
    (c.store k q r res g).1.Inv ∧ (c.store k q r res g).1.cap = c.cap := by
  unfold store
  simp only
  split
  · exact ⟨h, rfl⟩
  · split
    · rename_i old hf
      split
      · exact ⟨inv_readd c k old _ rfl hf h, rfl⟩
      · exact ⟨inv_readd c k old old (find?_some_mem _ _ _ hf).2 hf h, rfl⟩
    · rename_i hf
      have hnm := find?_none_not_mem c.entries k hf
      obtain ⟨hn, hl⟩ := h
      refine ⟨⟨?_, ?_⟩, rfl⟩
      · split
        · exact nodup_append_single _ _ (nodup_keys_tail _ hn) (fun hm => hnm (mem_keys_tail _ _ hm))
        · exact nodup_append_single _ _ hn hnm
      · split
        · simp only [List.length_append, List.length_tail, List.length_cons, List.length_nil]
          omega
        · simp only [List.length_append, List.length_cons, List.length_nil]
          omega

theorem inv_get (c : QCache) (k : QKey) (w : Nat) (o : List (List Nat)) (h : c.Inv) :
    (c.get k w o).1.Inv ∧ (c.get k w o).1.cap = c.cap := by
  unfold get
  split
  · split
    · exact ⟨inv_touch c k h, by simp⟩
    · exact ⟨h, rfl⟩
  · simp only
    split
    · exact ⟨inv_touch c _ h, by simp⟩
    · exact ⟨h, rfl⟩

theorem inv_filter (c : QCache) (p : QEntry → Bool) (g : Nat) (h : c.Inv) :
    ({ c with entries := c.entries.filter p, gen := g } : QCache).Inv := by
  obtain ⟨hn, hl⟩ := h
  refine ⟨?_, Nat.le_trans (List.length_filter_le _ _) hl⟩
  simp only [keys] at *
  exact (List.Sublist.map _ (List.filter_sublist)).nodup hn

theorem inv_applyOp (c : QCache) (op : QOp) (h : c.Inv) :
    (c.applyOp op).Inv ∧ (c.applyOp op).cap = c.cap := by
  cases op with
  | store k q r res g => exact inv_store c k q r res g h
  | get k w o => exact inv_get c k w o h
  | invalidateDoc d => exact ⟨inv_filter c _ _ h, rfl⟩
  | invalidateForInsert hit => exact ⟨inv_filter c _ _ h, rfl⟩
  | clear => exact ⟨by simp [applyOp, clear, Inv, keys], rfl⟩

theorem inv_applyOps (c : QCache) (ops : List QOp) (h : c.Inv) :
    (c.applyOps ops).Inv ∧ (c.applyOps ops).cap = c.cap := by
  unfold applyOps
  induction ops generalizing c with
  | nil => exact ⟨h, rfl⟩
  | cons op rest ih =>
    rw [List.foldl_cons]
    have h1 := inv_applyOp c op h
    have h2 := ih _ h1.1
    exact ⟨h2.1, h2.2.trans h1.2⟩

end QCache
end KyroModel
