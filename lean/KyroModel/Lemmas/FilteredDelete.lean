/-
Engine-level filtered delete (`TieredEngine::batch_delete_by_metadata_filter`): it removes
exactly the canonical documents whose *canonical* metadata satisfies the filter.
-/
import KyroModel.Lemmas.HotSubCold

namespace KyroModel
section
variable {D : Type} [DecidableEq D]

theorem alookup_foldl_delete (ids : List Nat) (c : Cold) (j : Nat) :
    alookup j (ids.foldl (fun c id => (Cold.delete c id).1) c) =
      if j ∈ ids then none else alookup j c := by
  induction ids generalizing c with
  | nil => simp
  | cons i rest ih =>
    rw [List.foldl_cons, ih]
    have hdel : alookup j (Cold.delete c i).1 = if j = i then none else alookup j c := by
      unfold Cold.delete
      by_cases h : j = i
      · subst h
        cases hl : alookup j c with
        | none => simp [hl]
        | some d => simp [alookup_aerase_self]
      · cases hl : alookup i c with
        | none => simp [h]
        | some d => simp [h, alookup_aerase_ne i j c h]
    by_cases hr : j ∈ rest
    · simp [hr]
    · by_cases hji : j = i
      · subst hji; simp [hr, hdel]
      · simp [hr, hji, hdel]

theorem mem_dedupSorted (ids : List Nat) (j : Nat) : j ∈ dedupSorted ids ↔ j ∈ ids := by
  simp [dedupSorted, List.mem_eraseDups, List.mem_mergeSort]

theorem mem_coldFilterIds (parse : String → Option Nat) (c : Cold) (hn : AKeysNodup c) (f : Filter)
    (j : Nat) :
    j ∈ coldFilterIds parse c f ↔ ∃ d, alookup j c = some d ∧ matchesF parse f d.md = true := by
  simp only [coldFilterIds, List.mem_map, List.mem_filter]
  constructor
  · rintro ⟨⟨k, d⟩, ⟨hm, hf⟩, rfl⟩
    refine ⟨d, ?_, hf⟩
    -- with unique keys, membership determines the lookup
    clear hf
    induction c with
    | nil => cases hm
    | cons p rest ih =>
      obtain ⟨k', d'⟩ := p
      simp only [AKeysNodup, akeys, List.map_cons, List.nodup_cons] at hn
      rcases List.mem_cons.mp hm with h | h
      · simp only [Prod.mk.injEq] at h
        obtain ⟨rfl, rfl⟩ := h
        simp
      · have hne : k' ≠ k := by
          intro e; subst e
          apply hn.1
          simp only [List.mem_map]; exact ⟨(k', d), h, rfl⟩
        simp only [alookup_cons, hne, ↓reduceIte]
        exact ih hn.2 h
  · rintro ⟨d, hl, hf⟩
    exact ⟨(j, d), ⟨mem_of_alookup' j d c hl, hf⟩, rfl⟩
where
  mem_of_alookup' (k : Nat) (v : ColdDoc) (l : Cold) (h : alookup k l = some v) : (k, v) ∈ l := by
    induction l with
    | nil => simp at h
    | cons p rest ih =>
      obtain ⟨k', v'⟩ := p
      by_cases hk : k' = k
      · simp [hk] at h; subst hk; subst h; exact List.mem_cons_self ..
      · simp [hk] at h; exact List.mem_cons_of_mem _ (ih h)

/-- **The filtered delete removes exactly the matching canonical documents.** -/
theorem deleteByFilter_exact (parse : String → Option Nat) (s : TState D) (f : Filter)
    (hs : HotSubCold s) (hn : AKeysNodup s.cold) (j : Nat) :
    alookup j (deleteByFilter parse s f).1.cold =
      match alookup j s.cold with
      | some d => if matchesF parse f d.md then none else some d
      | none => none := by
  unfold deleteByFilter
  rw [(batchDelete_hsc s _ hs).1, alookup_foldl_delete]
  simp only [mem_dedupSorted]
  have hcold := mem_coldFilterIds parse s.cold hn f j
  have hhot : j ∈ hotFilterIds parse s f → j ∈ coldFilterIds parse s.cold f := by
    intro hh
    simp only [hotFilterIds, List.mem_filter, List.mem_map] at hh
    obtain ⟨⟨⟨k, hd⟩, ⟨hm, _⟩, rfl⟩, hcan⟩ := hh
    have hk : k ∈ akeys s.cold := hs k (by simp only [akeys, List.mem_map]; exact ⟨(k, hd), hm, rfl⟩)
    obtain ⟨d, hl⟩ := exists_alookup_of_mem k s.cold hk
    simp only [hl] at hcan
    exact hcold.mpr ⟨d, hl, hcan⟩
  cases hl : alookup j s.cold with
  | none =>
    simp only
    split <;> rfl
  | some d =>
    simp only
    by_cases hm : matchesF parse f d.md = true
    · have : j ∈ hotFilterIds parse s f ++ coldFilterIds parse s.cold f :=
        List.mem_append.mpr (Or.inr (hcold.mpr ⟨d, hl, hm⟩))
      simp [this, hm]
    · have : j ∉ hotFilterIds parse s f ++ coldFilterIds parse s.cold f := by
        intro hin
        rcases List.mem_append.mp hin with h | h
        · obtain ⟨d', hl', hm'⟩ := hcold.mp (hhot h)
          rw [hl] at hl'; cases hl'; exact hm hm'
        · obtain ⟨d', hl', hm'⟩ := hcold.mp h
          rw [hl] at hl'; cases hl'; exact hm hm'
      simp [this, hm]

end
end KyroModel
