/-
Byte-level facts about the segment scanner: clean round trip, truncation at ANY length reads as
a clean shorter segment, a checksum mismatch is counted, a length field that runs past the end
of the file silently ends the scan.
-/
import KyroModel.Persist.Codec

namespace KyroModel.Codec

theorem le32_length (n : Nat) : (le32 n).length = 4 := rfl

theorem rd32_le32 (n : Nat) (h : n < 4294967296) : rd32 (le32 n) = n := by
  simp only [le32, rd32]
  omega

/-- well-formed payload and checksum function -/
structure Valid (crc : Bytes → Nat) (p : Bytes) : Prop where
  pos : 0 < p.length
  le : p.length ≤ maxEntry
  crc32 : crc p < 4294967296

theorem frame_length (crc : Bytes → Nat) (p : Bytes) : (frame crc p).length = p.length + 8 := by
  simp [frame, le32_length]; omega

theorem take4_frame (crc : Bytes → Nat) (p tail : Bytes) :
    (frame crc p ++ tail).take 4 = le32 p.length := by
  simp only [frame, List.append_assoc]
  exact List.take_left' (le32_length _)

theorem scan_succ (crc : Bytes → Nat) (fuel : Nat) (bs : Bytes) :
    scan crc (fuel + 1) bs =
      if bs.length < 4 then ⟨[], 0⟩
      else if rd32 (bs.take 4) = 0 ∨ rd32 (bs.take 4) > maxEntry then ⟨[], 1⟩
      else if bs.length < 4 + rd32 (bs.take 4) + 4 then ⟨[], 0⟩
      else scanFrame crc ((bs.drop 4).take (rd32 (bs.take 4)))
             (rd32 ((bs.drop (4 + rd32 (bs.take 4))).take 4))
             (scan crc fuel (bs.drop (4 + rd32 (bs.take 4) + 4))) := by
  rw [scan]

/-- one clean frame in front of anything -/
theorem scan_frame (crc : Bytes → Nat) (fuel : Nat) (p tail : Bytes) (hv : Valid crc p) :
    scan crc (fuel + 1) (frame crc p ++ tail) =
      ⟨p :: (scan crc fuel tail).payloads, (scan crc fuel tail).corrupted⟩ := by
  have hlen : (frame crc p ++ tail).length = p.length + 8 + tail.length := by
    simp [frame_length]
  have hmax : p.length < 4294967296 := by have := hv.le; unfold maxEntry at this; omega
  have hrd : rd32 ((frame crc p ++ tail).take 4) = p.length := by
    rw [take4_frame, rd32_le32 _ hmax]
  rw [scan_succ, hrd]
  have h1 : ¬ (frame crc p ++ tail).length < 4 := by omega
  have h2 : ¬ (p.length = 0 ∨ p.length > maxEntry) := by have := hv.pos; have := hv.le; omega
  have h3 : ¬ (frame crc p ++ tail).length < 4 + p.length + 4 := by omega
  rw [if_neg h1, if_neg h2, if_neg h3]
  have e1 : ((frame crc p ++ tail).drop 4).take p.length = p := by
    simp only [frame, List.append_assoc]
    rw [List.drop_left' (le32_length _)]
    exact List.take_left' rfl
  have e2 : ((frame crc p ++ tail).drop (4 + p.length)).take 4 = le32 (crc p) := by
    simp only [frame, List.append_assoc]
    rw [← List.drop_drop, List.drop_left' (le32_length _), List.drop_left' rfl]
    exact List.take_left' (le32_length _)
  have e3 : (frame crc p ++ tail).drop (4 + p.length + 4) = tail := by
    have : (frame crc p).length = 4 + p.length + 4 := by rw [frame_length]; omega
    exact List.drop_left' this
  rw [e1, e2, e3, rd32_le32 _ hv.crc32]
  simp [scanFrame]

theorem encode_cons (crc : Bytes → Nat) (p : Bytes) (ps : List Bytes) :
    encode crc (p :: ps) = frame crc p ++ encode crc ps := by
  simp [encode]

/-- clean frames in front of anything -/
theorem scan_frames (crc : Bytes → Nat) (ps : List Bytes) (hv : ∀ p ∈ ps, Valid crc p)
    (fuel : Nat) (tail : Bytes) :
    scan crc (ps.length + fuel) (encode crc ps ++ tail) =
      ⟨ps ++ (scan crc fuel tail).payloads, (scan crc fuel tail).corrupted⟩ := by
  induction ps with
  | nil => simp [encode]
  | cons p rest ih =>
    rw [encode_cons, List.append_assoc]
    have : (p :: rest).length + fuel = (rest.length + fuel) + 1 := by simp; omega
    rw [this, scan_frame crc _ p _ (hv p (List.mem_cons_self ..)),
      ih (fun q hq => hv q (List.mem_cons_of_mem _ hq))]
    simp

theorem scan_nil (crc : Bytes → Nat) (fuel : Nat) : scan crc fuel [] = ⟨[], 0⟩ := by
  cases fuel <;> simp [scan]

/-- **Round trip**: what the writer wrote is what the reader reads, nothing counted corrupted. -/
theorem scan_encode (crc : Bytes → Nat) (ps : List Bytes) (hv : ∀ p ∈ ps, Valid crc p) (fuel : Nat)
    (hf : ps.length ≤ fuel) : scan crc fuel (encode crc ps) = ⟨ps, 0⟩ := by
  obtain ⟨k, rfl⟩ : ∃ k, fuel = ps.length + k := ⟨fuel - ps.length, by omega⟩
  have := scan_frames crc ps hv k []
  rw [List.append_nil] at this
  rw [this, scan_nil]
  simp

/-- a proper prefix of one frame is a clean end of file: nothing read, nothing counted -/
theorem scan_partial_frame (crc : Bytes → Nat) (fuel : Nat) (p : Bytes) (hv : Valid crc p) (k : Nat)
    (hk : k < (frame crc p).length) : scan crc fuel ((frame crc p).take k) = ⟨[], 0⟩ := by
  cases fuel with
  | zero => simp [scan]
  | succ fuel =>
    have hfl := frame_length crc p
    have hlen : ((frame crc p).take k).length = k := by
      rw [List.length_take]; omega
    rw [scan_succ]
    by_cases h4 : k < 4
    · rw [if_pos (by omega)]
    · rw [if_neg (by omega)]
      have hmax : p.length < 4294967296 := by have := hv.le; unfold maxEntry at this; omega
      have hrd : rd32 (((frame crc p).take k).take 4) = p.length := by
        rw [List.take_take, Nat.min_eq_left (by omega)]
        have := take4_frame crc p []
        rw [List.append_nil] at this
        rw [this, rd32_le32 _ hmax]
      rw [hrd]
      have h2 : ¬ (p.length = 0 ∨ p.length > maxEntry) := by have := hv.pos; have := hv.le; omega
      rw [if_neg h2, if_pos (by omega)]

/-- **Truncation at ANY length** of a clean segment body reads as a clean, shorter segment: some
    prefix of the frames, nothing counted as corrupted.  (For the newest segment this is the torn
    tail of C01; for every other segment it is KF-C13-wal-silent-prefix.) -/
theorem scan_truncated (crc : Bytes → Nat) (ps : List Bytes) (hv : ∀ p ∈ ps, Valid crc p) (k : Nat)
    (fuel : Nat) (hf : ps.length ≤ fuel) :
    ∃ j, j ≤ ps.length ∧ scan crc fuel ((encode crc ps).take k) = ⟨ps.take j, 0⟩ := by
  induction ps generalizing k fuel with
  | nil => exact ⟨0, Nat.le_refl _, by simp [encode, scan_nil]⟩
  | cons p rest ih =>
    have hvp := hv p (List.mem_cons_self ..)
    rw [encode_cons]
    by_cases hk : k < (frame crc p).length
    · refine ⟨0, Nat.zero_le _, ?_⟩
      rw [List.take_append_of_le_length (Nat.le_of_lt hk)]
      simpa using scan_partial_frame crc fuel p hvp k hk
    · obtain ⟨f', rfl⟩ : ∃ f', fuel = f' + 1 := ⟨fuel - 1, by simp at hf; omega⟩
      have hk' : (frame crc p).length ≤ k := Nat.le_of_not_lt hk
      rw [List.take_append, List.take_of_length_le hk']
      obtain ⟨j, hj, hs⟩ := ih (fun q hq => hv q (List.mem_cons_of_mem _ hq))
        (k - (frame crc p).length) f' (by simp at hf; omega)
      refine ⟨j + 1, by simp; omega, ?_⟩
      rw [scan_frame crc f' p _ hvp, hs]
      simp

/-- **A frame whose stored checksum does not match its payload is counted**: after any clean
    frames, whatever follows. -/
theorem scan_checksum_mismatch (crc : Bytes → Nat) (pre : List Bytes) (hv : ∀ p ∈ pre, Valid crc p)
    (q : Bytes) (c : Nat) (hq : 0 < q.length ∧ q.length ≤ maxEntry) (hc : c < 4294967296)
    (hbad : c ≠ crc q) (tail : Bytes) (fuel : Nat) :
    0 < (scan crc (pre.length + (fuel + 1)) (encode crc pre ++ (le32 q.length ++ q ++ le32 c ++ tail))).corrupted := by
  rw [scan_frames crc pre hv]
  simp only
  have hmax : q.length < 4294967296 := by have := hq.2; unfold maxEntry at this; omega
  have hlen : (le32 q.length ++ q ++ le32 c ++ tail).length = q.length + 8 + tail.length := by
    simp [le32_length]; omega
  have hrd : rd32 ((le32 q.length ++ q ++ le32 c ++ tail).take 4) = q.length := by
    simp only [List.append_assoc]
    rw [List.take_left' (le32_length _), rd32_le32 _ hmax]
  rw [scan_succ, hrd, if_neg (by omega), if_neg (by omega), if_neg (by omega)]
  have e1 : ((le32 q.length ++ q ++ le32 c ++ tail).drop 4).take q.length = q := by
    simp only [List.append_assoc]
    rw [List.drop_left' (le32_length _)]
    exact List.take_left' rfl
  have e2 : ((le32 q.length ++ q ++ le32 c ++ tail).drop (4 + q.length)).take 4 = le32 c := by
    simp only [List.append_assoc]
    rw [← List.drop_drop, List.drop_left' (le32_length _), List.drop_left' rfl]
    exact List.take_left' (le32_length _)
  rw [e1, e2, rd32_le32 _ hc]
  simp [scanFrame, hbad]

/-- **A length field that points past the end of the file ends the scan silently**: the frames
    before it are returned, nothing is counted as corrupted — wherever in the segment it is. -/
theorem scan_length_past_eof (crc : Bytes → Nat) (pre : List Bytes) (hv : ∀ p ∈ pre, Valid crc p)
    (len : Nat) (h0 : 0 < len) (hmax : len ≤ maxEntry) (rest : Bytes) (hr : rest.length < len + 4)
    (fuel : Nat) :
    scan crc (pre.length + fuel) (encode crc pre ++ (le32 len ++ rest)) = ⟨pre, 0⟩ := by
  rw [scan_frames crc pre hv]
  cases fuel with
  | zero => simp [scan]
  | succ fuel =>
    have hm : len < 4294967296 := by unfold maxEntry at hmax; omega
    have hrd : rd32 ((le32 len ++ rest).take 4) = len := by
      rw [List.take_left' (le32_length _), rd32_le32 _ hm]
    have hlen : (le32 len ++ rest).length = 4 + rest.length := by simp [le32_length]
    rw [scan_succ, hrd, if_neg (by omega), if_neg (by omega), if_pos (by omega)]
    simp

end KyroModel.Codec
