/-
The inverted index reflects exactly the live slots' metadata (`IdxInv`), and every index
update used by the store preserves that.
-/
import KyroModel.Store.DocStore
import KyroModel.Lemmas.F64Order

namespace KyroModel

/-- what the index has to reflect: which slots are live, and their metadata -/
structure SlotView where
  live : Nat → Bool
  md : Nat → MetaMap

/-- the view with slot `i` made live with metadata `m` -/
def SlotView.setLive (V : SlotView) (i : Nat) (m : MetaMap) : SlotView :=
  ⟨fun j => if j = i then true else V.live j, fun j => if j = i then m else V.md j⟩

/-- the view with slot `i` dead -/
def SlotView.setDead (V : SlotView) (i : Nat) : SlotView :=
  ⟨fun j => if j = i then false else V.live j, fun j => if j = i then [] else V.md j⟩

/-- a posting relation holds exactly the tags of the live slots' metadata -/
def PInv {τ : Type} (tags : MetaMap → List τ) (L : List (τ × Nat)) (V : SlotView) : Prop :=
  ∀ t i, (t, i) ∈ L ↔ V.live i = true ∧ t ∈ tags (V.md i)

theorem pinv_append {τ : Type} (tags : MetaMap → List τ) (L : List (τ × Nat)) (V : SlotView)
    (i : Nat) (m : MetaMap) (h : PInv tags L V) (hdead : V.live i = false) :
    PInv tags (L ++ (tags m).map (·, i)) (V.setLive i m) := by
  intro t j
  simp only [List.mem_append, List.mem_map, Prod.mk.injEq, SlotView.setLive]
  by_cases hj : j = i
  · subst hj
    simp only [↓reduceIte, true_and]
    constructor
    · rintro (hl | ⟨a, ha, rfl, _⟩)
      · have := (h t j).mp hl
        rw [hdead] at this; exact absurd this.1 (by simp)
      · exact ha
    · intro ht; exact Or.inr ⟨t, ht, by simp⟩
  · simp only [hj, ↓reduceIte]
    constructor
    · rintro (hl | ⟨a, _, _, hji⟩)
      · exact (h t j).mp hl
      · exact absurd hji.symm hj
    · intro hh; exact Or.inl ((h t j).mpr hh)

theorem pinv_dropTags {τ : Type} [DecidableEq τ] (tags : MetaMap → List τ) (L : List (τ × Nat))
    (V : SlotView) (i : Nat) (m : MetaMap) (h : PInv tags L V)
    (hm : V.live i = true → m = V.md i) :
    PInv tags (dropTags L (tags m) i) (V.setDead i) := by
  intro t j
  simp only [dropTags, List.mem_filter, Bool.not_eq_true', Bool.and_eq_false_imp, beq_iff_eq,
    SlotView.setDead]
  by_cases hj : j = i
  · subst hj
    simp only [↓reduceIte, Bool.false_eq_true, false_and, iff_false, not_and]
    intro hl
    have := (h t j).mp hl
    rw [← hm this.1] at this
    simp [this.2]
  · simp only [hj, ↓reduceIte]
    constructor
    · rintro ⟨hl, _⟩; exact (h t j).mp hl
    · intro hh; exact ⟨(h t j).mpr hh, fun e => by simp at e⟩

theorem pinv_dropSlot {τ : Type} (tags : MetaMap → List τ) (L : List (τ × Nat)) (V : SlotView)
    (i : Nat) (h : PInv tags L V) : PInv tags (dropSlot L i) (V.setDead i) := by
  intro t j
  simp only [dropSlot, List.mem_filter, bne_iff_ne, ne_eq, SlotView.setDead]
  by_cases hj : j = i
  · subst hj; simp
  · simp only [hj, not_false_eq_true, and_true, ↓reduceIte]
    exact h t j

section
variable (parse : String → Option Nat)

structure IdxInv (x : MetaIndex) (V : SlotView) : Prop where
  alive : ∀ i, i ∈ x.alive ↔ V.live i = true
  kv : PInv tagsKV x.kv V
  lex : PInv tagsKV x.lex V
  num : PInv (tagsNum parse) x.num V
  numDocs : PInv (tagsNumDocs parse) x.numDocs V

/-- two views with the same live set and the same metadata on live slots are interchangeable -/
theorem PInv.congr {τ : Type} {tags : MetaMap → List τ} {L : List (τ × Nat)} {V W : SlotView}
    (h : PInv tags L V) (hl : ∀ i, W.live i = V.live i)
    (hm : ∀ i, V.live i = true → W.md i = V.md i) : PInv tags L W := by
  intro t i
  rw [h t i, hl i]
  constructor
  · rintro ⟨a, b⟩; exact ⟨a, by rw [hm i a]; exact b⟩
  · rintro ⟨a, b⟩; exact ⟨a, by rw [← hm i a]; exact b⟩

theorem IdxInv.congr {x : MetaIndex} {V W : SlotView} (h : IdxInv parse x V)
    (hl : ∀ i, W.live i = V.live i) (hm : ∀ i, V.live i = true → W.md i = V.md i) :
    IdxInv parse x W :=
  ⟨fun i => by rw [h.alive i, hl i], h.kv.congr hl hm, h.lex.congr hl hm, h.num.congr hl hm,
   h.numDocs.congr hl hm⟩

theorem idxInv_empty : IdxInv parse MetaIndex.empty ⟨fun _ => false, fun _ => []⟩ :=
  ⟨by simp [MetaIndex.empty], by intro t i; simp [MetaIndex.empty],
   by intro t i; simp [MetaIndex.empty], by intro t i; simp [MetaIndex.empty],
   by intro t i; simp [MetaIndex.empty]⟩

/-- `insert_doc` of a slot that is not live -/
theorem idxInv_insertDoc (x : MetaIndex) (V : SlotView) (i : Nat) (m : MetaMap)
    (h : IdxInv parse x V) (hdead : V.live i = false) :
    IdxInv parse (x.insertDoc parse i m) (V.setLive i m) := by
  have hna : x.alive.contains i = false := by
    have := h.alive i
    rw [hdead] at this
    simp only [Bool.false_eq_true, iff_false] at this
    simpa using this
  unfold MetaIndex.insertDoc
  simp only [hna, Bool.false_eq_true, ↓reduceIte]
  refine ⟨?_, pinv_append _ _ _ _ _ h.kv hdead, pinv_append _ _ _ _ _ h.lex hdead,
    pinv_append _ _ _ _ _ h.num hdead, pinv_append _ _ _ _ _ h.numDocs hdead⟩
  intro j
  simp only [List.mem_cons, SlotView.setLive]
  by_cases hj : j = i
  · simp [hj]
  · simp [hj, h.alive j]

/-- `remove_doc` with the slot's actual metadata -/
theorem idxInv_removeDoc (x : MetaIndex) (V : SlotView) (i : Nat) (m : MetaMap)
    (h : IdxInv parse x V) (hm : V.live i = true → m = V.md i) :
    IdxInv parse (x.removeDoc parse i m) (V.setDead i) := by
  unfold MetaIndex.removeDoc
  refine ⟨?_, pinv_dropTags _ _ _ _ _ h.kv hm, pinv_dropTags _ _ _ _ _ h.lex hm,
    pinv_dropTags _ _ _ _ _ h.num hm, pinv_dropTags _ _ _ _ _ h.numDocs hm⟩
  intro j
  simp only [List.mem_filter, bne_iff_ne, ne_eq, SlotView.setDead]
  by_cases hj : j = i
  · simp [hj]
  · simp [hj, h.alive j]

/-- `replace_doc` of a live slot -/
theorem idxInv_replaceDoc (x : MetaIndex) (V : SlotView) (i : Nat) (old new : MetaMap)
    (h : IdxInv parse x V) (hm : V.live i = true → old = V.md i) :
    IdxInv parse (x.replaceDoc parse i old new) ((V.setDead i).setLive i new) := by
  unfold MetaIndex.replaceDoc
  exact idxInv_insertDoc parse _ _ i new (idxInv_removeDoc parse x V i old h hm)
    (by simp [SlotView.setDead])

end
end KyroModel
