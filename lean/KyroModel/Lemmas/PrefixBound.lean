/-
The pruning bounds of `invalidate_for_insert` (query_hash_cache.rs `dot_upper_bound_from_prefix`,
`l2_prefix_sq`) over the reals: for EVERY dimension `n`, every prefix length `p` and every pair of
vectors, the dot product is at most the prefix dot product plus the product of the tail norms,
and the squared distance over the prefix is at most the full squared distance.  Hence "the
pre-filter says the insert cannot reach the boundary" implies "the exact test keeps the entry"
in exact arithmetic.  (Float rounding inside the pre-filter is exercised near the boundary by the
correspondence run, not proved.)  Mathlib: `Real.sum_mul_le_sqrt_mul_sqrt`.
-/
import Mathlib.Analysis.Real.Sqrt
import Mathlib.Algebra.BigOperators.Group.Finset.Basic

namespace KyroModel.PrefixBound
open Finset

/-- **Inner-product / cosine pre-filter**: ⟨q,v⟩ ≤ ⟨q,v⟩_prefix + ‖q_tail‖·‖v_tail‖ -/
theorem dot_le_prefix_add_tail (n p : ℕ) (q v : Fin n → ℝ) :
    ∑ i, q i * v i ≤
      (∑ i ∈ univ.filter (fun i : Fin n => (i : ℕ) < p), q i * v i) +
        √(∑ i ∈ univ.filter (fun i : Fin n => ¬ (i : ℕ) < p), q i ^ 2) *
        √(∑ i ∈ univ.filter (fun i : Fin n => ¬ (i : ℕ) < p), v i ^ 2) := by
  have hsplit := Finset.sum_filter_add_sum_filter_not (univ : Finset (Fin n))
    (fun i : Fin n => (i : ℕ) < p) (fun i => q i * v i)
  rw [← hsplit]
  have := Real.sum_mul_le_sqrt_mul_sqrt (univ.filter (fun i : Fin n => ¬ (i : ℕ) < p)) q v
  linarith

/-- so an insert the pre-filter rules out cannot reach the boundary: if the bound is below the
    threshold, so is the dot product itself -/
theorem dot_prefilter_sound (n p : ℕ) (q v : Fin n → ℝ) (threshold : ℝ)
    (h : (∑ i ∈ univ.filter (fun i : Fin n => (i : ℕ) < p), q i * v i) +
        √(∑ i ∈ univ.filter (fun i : Fin n => ¬ (i : ℕ) < p), q i ^ 2) *
        √(∑ i ∈ univ.filter (fun i : Fin n => ¬ (i : ℕ) < p), v i ^ 2) < threshold) :
    ∑ i, q i * v i < threshold :=
  lt_of_le_of_lt (dot_le_prefix_add_tail n p q v) h

/-- **Euclidean pre-filter**: the squared distance over the prefix never exceeds the full one -/
theorem l2_prefix_le_full (n p : ℕ) (q v : Fin n → ℝ) :
    ∑ i ∈ univ.filter (fun i : Fin n => (i : ℕ) < p), (q i - v i) ^ 2 ≤ ∑ i, (q i - v i) ^ 2 := by
  apply Finset.sum_le_sum_of_subset_of_nonneg (Finset.filter_subset _ _)
  intro i _ _
  positivity

/-- so a vector whose prefix alone is already farther than the boundary radius is farther -/
theorem l2_prefilter_sound (n p : ℕ) (q v : Fin n → ℝ) (radiusSq : ℝ)
    (h : radiusSq < ∑ i ∈ univ.filter (fun i : Fin n => (i : ℕ) < p), (q i - v i) ^ 2) :
    radiusSq < ∑ i, (q i - v i) ^ 2 :=
  lt_of_lt_of_le h (l2_prefix_le_full n p q v)

end KyroModel.PrefixBound
