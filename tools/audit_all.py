#!/usr/bin/env python3
"""tools/audit_all.py: the stranger's audit in one go - clean `lake build` of every theorem module and the driver, source scan for
forbidden constructs, `#print axioms` of every theorem of every Theorems/*.lean (allowed: propext, Classical.choice, Quot.sound)."""
import os, sys, glob
sys.path.insert(0, os.path.dirname(os.path.dirname(os.path.abspath(__file__))))
from vlib.common import *

mods = sorted("KyroModel.Theorems." + os.path.basename(f)[:-5] for f in glob.glob(os.path.join(LEAN, "KyroModel", "Theorems", "*.lean")))
ok, log, secs = lake_build(mods + ["kyro_driver"], clean=("--clean" in sys.argv))
print("lake build (%d theorem modules + driver): %s in %.0fs" % (len(mods), "ok" if ok else "FAILED", secs))
if not ok:
    print("\n".join(l for l in log.split("\n") if "error" in l)[:3000]); sys.exit(1)
hits = source_scan()
print("source scan (sorry/admit/axiom/native_decide/bv_decide/implemented_by/unsafe/maxHeartbeats 0):", hits or "clean")
bad = 0
total = 0
for m in mods:
    names = obligations_of(m)
    aok, per, alog = axiom_audit(m, names)
    total += len(names)
    extra = {n: sorted(set(a) - ALLOWED_AXIOMS) for n, a in per.items() if set(a) - ALLOWED_AXIOMS}
    missing = [n for n in names if n not in per]
    print("%-34s %3d theorems  %s" % (m, len(names), "ok" if aok and not extra and not missing else "PROBLEM %s %s" % (extra, missing)))
    bad += (not aok) or bool(extra) or bool(missing)
print("total theorems audited:", total)
sys.exit(1 if bad or hits else 0)
