#!/bin/bash
# tools/revalidate_seeds.sh [dirs...]: every seeded change again against the current checks (quick tier, seed 0);
# one line per seed: caught (rc=1 with a VIOLATION line), MISSED, or "patch does not apply"
cd /verif
dirs=${@:-$(ls seeded)}
for d in $dirs; do
  prop=$(python3 -c "import json;print(json.load(open('seeded/$d/meta.json'))['property'])" 2>/dev/null)
  [ -z "$prop" ] && prop=${d%%-*}
  out=$(./tools/try_seed.sh $prop seeded/$d 2>&1)
  if echo "$out" | grep -q "does not apply"; then echo "$d ($prop): patch does not apply";
  elif echo "$out" | grep -q "^VIOLATION"; then echo "$d ($prop): caught $(echo "$out" | grep -c '^VIOLATION') $(echo "$out" | grep '^VIOLATION' | head -1 | grep -o 'no-failing-input-found')";
  else echo "$d ($prop): MISSED [$out]"; fi
done
