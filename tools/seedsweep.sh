#!/bin/bash
# ./tools/seedsweep.sh "<seeds>" [props...]: quick tier of every claimed check under several seeds; prints one line per alarm
cd /verif
seeds=${1:-"1 2 3"}; shift
props=${@:-$(python3 -c "import json;print(' '.join(c['property_id'] for c in json.load(open('MANIFEST.json'))['checks']))")}
for s in $seeds; do for p in $props; do
  out=$(VERIF_SEED=$s VERIF_TIER=quick ./check $p --tier quick 2>&1); rc=$?
  v=$(echo "$out" | grep -c "^VIOLATION")
  if [ $rc -ne 0 ] || [ $v -ne 0 ]; then echo "ALARM seed=$s prop=$p rc=$rc"; echo "$out" | grep "^VIOLATION"; mkdir -p /tmp/sweep_keep; cp -r replays/$p /tmp/sweep_keep/${p}_seed$s 2>/dev/null; else echo "ok seed=$s prop=$p"; fi
done; done
