#!/bin/bash
# tools/try_seed.sh <prop> <seed-dir> [tier]: apply seeded/<dir>/patch.diff to /repo, run the check, undo
prop=$1; dir=$2; tier=${3:-quick}
cd /verif
git -C /repo status --short | grep -q . && { echo "/repo not clean"; exit 2; }
git -C /repo apply "/verif/$dir/patch.diff" || { echo "patch does not apply"; exit 2; }
VERIF_SEED=${VERIF_SEED:-0} ./check $prop --tier $tier > /tmp/try_seed.out 2>&1; rc=$?
git -C /repo checkout -- .
# evidence and regenerated models written by a run against a seeded tree are not kept
git -C /verif checkout -- evidence lean/KyroModel/Config/Generated.lean lean/KyroModel/Simd lean/KyroModel/Conc/LockGraphGenerated.lean 2>/dev/null
echo "rc=$rc"; grep "^VIOLATION" /tmp/try_seed.out | cut -c1-200
