#!/bin/bash
# tools/thorough.sh <props...>: thorough tier of the given checks, one line each (time, rc, violations)
cd /verif
for p in "$@"; do
  t0=$(date +%s)
  out=$(VERIF_TIER=thorough ./check $p --tier thorough 2>&1); rc=$?
  t1=$(date +%s)
  echo "$p rc=$rc secs=$((t1-t0)) $(echo "$out" | grep -c '^VIOLATION') violations"
  echo "$out" | grep "^VIOLATION" | cut -c1-200
done
