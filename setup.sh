#!/bin/sh
# Builds the framework from files on disk only (offline).
set -e
cd "$(dirname "$0")"
export CARGO_NET_OFFLINE=true
cp /repo/Cargo.lock harness/Cargo.lock 2>/dev/null || true
(cd lean && lake build)
(cd harness && cargo build --offline)
