#!/bin/sh
# Builds the framework from files on disk only (offline).
set -e
cd "$(dirname "$0")"
export CARGO_NET_OFFLINE=true
cp /repo/Cargo.lock harness/Cargo.lock 2>/dev/null || true
(cd lean && lake build)
(cd harness && cargo build --offline)
# the real server binary the rpc engine drives (C10, C14); rebuilt from /repo's working tree by every check run

cargo build --offline --manifest-path /repo/Cargo.toml -p kyrodb-engine --bin kyrodb_server --target-dir "$(pwd)/harness/target/server"
