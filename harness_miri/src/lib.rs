// empty: the tests directory carries the Miri scenarios
