// corpus/C17: Miri scenario (run by `./check C17 --tier thorough`, which copies every corpus/C17/*_miri.rs into
// harness_miri/tests/ and runs `cargo +nightly miri test` against the CURRENT /repo/engine).
// fixed: property=C17 7214c4a - prefetch_dense_vector offset the record pointer with ptr.add(): for the last one-line
// record (dimension 1, M = 7) two cache lines ahead is past one-past-the-end of the allocation (UB for add(), reported
// by Miri on the pre-fix tree: prefetch_pointer_arithmetic_miri.unchanged.log). 131 inserts: the level-0 Vec is exactly
// full at 128 records and insert #129 searches with a result heap above the second-hop threshold.
use kyrodb_engine::config::DistanceMetric;
use kyrodb_engine::hnsw_index::HnswVectorIndex;

fn coord(i: u64) -> f32 {
    ((i.wrapping_mul(7_919) + 13) % 10_007) as f32
}

/// dimension 1, M = 7: cap 14, record = 16 words = 64 bytes (one cache line, no padding)
#[test]
fn dim1_m7_prefetch_pointer_arithmetic() {
    let n: usize = 131;
    let mut index = HnswVectorIndex::new_with_params(1, n, DistanceMetric::Euclidean, 7, 200, false).expect("index");
    for i in 0..n as u64 {
        index.add_vector(i, &[coord(i)]).expect("insert");
    }
    let got = index.knn_search_with_ef(&[coord(3)], 10, Some(10_000)).expect("search");
    assert_eq!(got.len(), 10);
}
