#!/usr/bin/env python3
"""Extracts the calls the server's periodic flush task makes on the engine at every tick
(engine/src/bin/kyrodb_server.rs, `tokio::select! { _ = interval.tick() => { ... } ... }` of the
"Background flush task").  Prints one line:  calls=<a>,<b>  with the vocabulary of harness engine
`periodic` (flush_hot_tier:<bool>, cold_tier.sync_wal).  Fails closed: an engine call it cannot name
makes it exit 1 (the check then reports the clause as no longer shown)."""
import re, sys

SRC = "/repo/engine/src/bin/kyrodb_server.rs"


def block_after(s, start):
    i = s.index("{", start)
    depth = 0
    for j in range(i, len(s)):
        if s[j] == "{":
            depth += 1
        elif s[j] == "}":
            depth -= 1
            if depth == 0:
                return s[i:j + 1]
    raise ValueError("unbalanced")


def main():
    s = open(SRC).read()
    m = re.search(r"let engine_for_flush\s*=", s)
    if not m:
        print("error: engine_for_flush not found"); return 1
    t = s.index("interval.tick()", m.end())
    arm = block_after(s, t)
    calls = []
    for c in re.finditer(r"engine_for_flush\s*\.\s*((?:\w+\s*\(\s*\)\s*\.\s*)*)(\w+)\s*\(\s*(true|false)?\s*\)", arm):
        chain = re.sub(r"[\s()]", "", c.group(1))            # e.g. "cold_tier."
        name = chain + c.group(2) + (":" + c.group(3) if c.group(3) else "")
        if name not in ("flush_hot_tier:false", "flush_hot_tier:true", "cold_tier.sync_wal"):
            print("error: unknown engine call in the periodic task: %s" % name); return 1
        calls.append(name)
    iv = re.search(r"let flush_interval\s*=\s*if engine_config\.flush_interval\.is_zero\(\)", s)
    print("calls=%s interval_source=%s" % (",".join(calls) or "-", "engine_config.flush_interval" if iv else "unknown"))
    return 0


if __name__ == "__main__":
    sys.exit(main())
