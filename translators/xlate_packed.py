#!/usr/bin/env python3
"""Translator: the index arithmetic of `PackedLevel0` and the visited bitset in the CURRENT
/repo/engine/src/ann_backend.rs -> lean/KyroModel/Simd/PackedGenerated.lean (definitions only;
the bounds theorems over them live in Theorems/C17.lean, so a change of the arithmetic that
breaks a bound breaks the proof).  Also lints every `*_unchecked(` call site for a dominating
`>= node_count` guard and lists the ones that rely on a caller-side argument instead.
Fails closed: anything it cannot translate is written to `translatorProblems`."""
import os, re, sys

SRC = "/repo/engine/src/ann_backend.rs"
OUT = os.path.join(os.path.dirname(os.path.dirname(os.path.abspath(__file__))),
                   "lean", "KyroModel", "Simd", "PackedGenerated.lean")


def strip_comments(s):
    s = re.sub(r"//[^\n]*", "", s)
    return re.sub(r"/\*.*?\*/", "", s, flags=re.S)


def match_close(s, i, op="{", cl="}"):
    depth = 0
    while i < len(s):
        if s[i] == op:
            depth += 1
        elif s[i] == cl:
            depth -= 1
            if depth == 0:
                return i
        i += 1
    raise ValueError("unbalanced")


class P:
    """tiny recursive-descent translator for usize expressions"""
    def __init__(self, text, rename):
        self.t = re.findall(r"\d+|[A-Za-z_][A-Za-z_0-9]*|>>|<<|[()+\-*/.,&]", text)
        if "".join(self.t) != re.sub(r"\s+", "", text):
            raise ValueError("untokenisable: " + text)
        self.i = 0
        self.rename = rename

    def peek(self):
        return self.t[self.i] if self.i < len(self.t) else None

    def eat(self, x=None):
        tok = self.peek()
        if x is not None and tok != x:
            raise ValueError("expected %s got %s" % (x, tok))
        self.i += 1
        return tok

    def expr(self):
        l = self.shift()
        return l

    def shift(self):
        l = self.add()
        while self.peek() in (">>", "<<"):
            op = self.eat(); r = self.add()
            l = "(%s %s %s)" % (l, ">>>" if op == ">>" else "<<<", r)
        return l

    def add(self):
        l = self.mul()
        while self.peek() in ("+", "-"):
            op = self.eat(); r = self.mul()
            l = "(%s %s %s)" % (l, op, r)
        return l

    def mul(self):
        l = self.post()
        while self.peek() in ("*", "/"):
            op = self.eat(); r = self.post()
            l = "(%s %s %s)" % (l, op, r)
        return l

    def post(self):
        a = self.atom()
        while True:
            if self.peek() == ".":
                self.eat(".")
                m = self.eat()
                if m == "len" and self.peek() == "(":
                    self.eat("("); self.eat(")")
                    a = self.rename.get(a + ".len", None) or ("%sLen" % a)
                    continue
                if self.peek() == "(":
                    self.eat("(")
                    arg = self.expr() if self.peek() != ")" else None
                    self.eat(")")
                    if m == "max": a = "(max %s %s)" % (a, arg)
                    elif m == "min": a = "(min %s %s)" % (a, arg)
                    elif m == "div_ceil": a = "(divCeil %s %s)" % (a, arg)
                    elif m == "saturating_mul": a = "(%s * %s)" % (a, arg)
                    elif m == "saturating_add": a = "(%s + %s)" % (a, arg)
                    else: raise ValueError("method " + m)
                else:
                    # field access self.x
                    if a == "self":
                        a = self.rename.get(m, m)
                    else:
                        raise ValueError("field " + m)
            elif self.peek() == "as":
                self.eat("as"); self.eat()     # integer widening: u32 -> usize is value-preserving
            else:
                return a

    def atom(self):
        tok = self.eat()
        if tok == "(":
            e = self.expr(); self.eat(")")
            return e
        if tok is None:
            raise ValueError("eof")
        if re.fullmatch(r"\d+", tok):
            return tok
        if re.fullmatch(r"[A-Za-z_]\w*", tok):
            return self.rename.get(tok, tok)
        raise ValueError("atom " + tok)


def tr(text, rename):
    p = P(text.strip(), rename)
    e = p.expr()
    if p.peek() is not None:
        raise ValueError("trailing " + str(p.peek()))
    return e


def fn_body(src, impl, name):
    m = re.search(r"impl\s+%s\s*\{" % impl, src)
    if not m:
        raise ValueError("no impl " + impl)
    k = match_close(src, m.end() - 1)
    body = src[m.end():k]
    fm = re.search(r"fn %s\s*\([^)]*\)[^{]*\{" % name, body)
    if not fm:
        raise ValueError("no fn %s::%s" % (impl, name))
    k2 = match_close(body, fm.end() - 1)
    return body[fm.end():k2]


def let_of(body, var):
    m = re.search(r"let\s+(?:mut\s+)?%s\s*(?::\s*\w+\s*)?=\s*([^;]+);" % var, body)
    if not m:
        raise ValueError("no let " + var)
    return m.group(1)


def lint_unchecked(src, problems):
    """every call X_unchecked(ID…) inside search/insert code: is ID guarded by `ID as usize >= node_count`
    (continue/return) earlier in the same function, or is it a heap/entry id?"""
    guarded, relied = [], []
    for m in re.finditer(r"\b(\w+_unchecked)\(\s*([^,)]+)", src):
        fn, arg = m.group(1), m.group(2).strip()
        line = src.count("\n", 0, m.start()) + 1
        # definition sites
        pre = src[max(0, m.start() - 12):m.start()]
        if re.search(r"fn\s+$", pre):
            continue
        if arg in ("query", "&query", "&euclidean_query", "&cosine_query"):
            am = re.match(r"\s*([^,)]+)\s*,\s*([^,)]+)", src[m.end() - len(m.group(2)):])
            arg = am.group(2).strip() if am else arg
        window = src[max(0, m.start() - 2500):m.start()]
        g = re.search(r"if\s+%s\s+as\s+usize\s*>=\s*node_count" % re.escape(arg), window)
        (guarded if g else relied).append("%s(%s)" % (fn, arg))
    return guarded, relied


def lint_neighbor_index(src):
    """every call neighbor_unchecked(D, E): E must be bounded by the record's own count — either the variable of an
    enclosing `for E in 0..neighbor_count`, or inside an `if` whose condition has `E < neighbor_count` — and that
    `neighbor_count` must be read with count_unchecked in the same function or be a parameter of it (then every caller
    has to pass its own `neighbor_count`).  Returns (sites, unguarded)."""
    sites, unguarded = [], []
    for m in re.finditer(r"\bneighbor_unchecked\(", src):
        if re.search(r"fn\s+$", src[max(0, m.start() - 12):m.start()]):
            continue
        close = match_close(src, m.end() - 1, "(", ")")
        args = [a.strip() for a in src[m.end():close].split(",")]
        if len(args) != 2:
            unguarded.append("neighbor_unchecked(%s): arity" % ",".join(args)); continue
        e = re.sub(r"\s+", " ", args[1])
        fstart = max(src.rfind("\n    fn ", 0, m.start()), src.rfind("\n    unsafe fn ", 0, m.start()),
                     src.rfind("\n    pub fn ", 0, m.start()), src.rfind("\n    pub(crate) fn ", 0, m.start()))
        before = src[fstart:m.start()]
        ee = re.escape(e).replace("\\ ", r"\s*")
        guard = None
        cands = []
        if re.fullmatch(r"\w+", e):
            cands += [(g.end(), "for %s in 0..neighbor_count" % e) for g in re.finditer(r"for\s+%s\s+in\s+0\s*\.\.\s*neighbor_count\s*\{" % ee, before)]
        cands += [(g.end(), "if %s < neighbor_count" % e) for g in re.finditer(r"if\b[^{;]*?%s\s*<\s*neighbor_count\b[^{;]*\{" % ee, before)]
        for end, text in sorted(cands, reverse=True):
            tail = before[end:]
            if tail.count("{") - tail.count("}") >= 0:          # the guarded block is still open at the call
                guard = text; break
        prov = "let" if re.search(r"let\s+neighbor_count\s*=[^;]*count_unchecked\(", before, re.S) else \
               "param" if re.search(r"fn\s+\w+\s*\([^)]*\bneighbor_count\s*:\s*usize", before, re.S) else None
        if guard and prov == "param":
            fname = re.search(r"fn\s+(\w+)\s*\(", before).group(1)
            for c in re.finditer(r"\b%s\(" % fname, src):
                if re.search(r"fn\s+$", src[max(0, c.start() - 12):c.start()]):
                    continue
                cargs = [a.strip() for a in src[c.end():match_close(src, c.end() - 1, "(", ")")].split(",")]
                if "neighbor_count" not in cargs:
                    prov = None
        line = src.count("\n", 0, m.start()) + 1
        if guard and prov:
            sites.append((e, "%s [%s]" % (guard, prov)))
        else:
            unguarded.append("neighbor_unchecked(%s, %s) near stripped line %d: guard=%s provenance=%s" % (args[0], e, line, guard, prov))
    return sites, unguarded


def lint_pointer_add(src):
    """raw pointer arithmetic: `p.add(n)` is undefined unless p + n stays inside (or one past) p's allocation, whether or not the
    result is dereferenced.  Recognised as bounded: `self.data.as_ptr().add(start)` inside PackedLevel0::vector_at_unchecked
    and ::record_ptr (bounds theorems over the extracted `start`).  Every other `.add(` is listed as unbounded
    (`wrapping_add` carries no such requirement and is not listed)."""
    bounded, unbounded = [], []
    for m in re.finditer(r"\.add\(", src):
        line = src.count("\n", 0, m.start()) + 1
        recv = re.search(r"([\w.()]+)$", src[max(0, m.start() - 60):m.start()])
        recv = recv.group(1) if recv else "?"
        fstart = max(src.rfind("\n    fn ", 0, m.start()), src.rfind("\n    unsafe fn ", 0, m.start()))
        fname = re.search(r"fn\s+(\w+)", src[fstart:m.start()])
        fname = fname.group(1) if fname else "?"
        arg = src[m.end():match_close(src, m.end() - 1, "(", ")")].strip()
        if recv.endswith("self.data.as_ptr()") and arg == "start" and fname in ("vector_at_unchecked", "record_ptr"):
            bounded.append("%s: data.as_ptr().add(start)" % fname)
        else:
            unbounded.append("%s: %s.add(%s)" % (fname, recv, re.sub(r"\s+", " ", arg)))
    return bounded, unbounded


def main():
    raw = open(SRC).read()
    # cut the test module
    cut = raw.find("#[cfg(test)]\nmod tests")
    src = strip_comments(raw if cut < 0 else raw[:cut])
    problems, defs = [], []
    ren = {"PACKED_LEVEL0_RECORD_ALIGN_WORDS": "alignWords"}

    def attempt(label, f):
        try:
            return f()
        except Exception as e:          # noqa
            problems.append("%s: %s" % (label, e))
            return "0"

    align = attempt("align", lambda: re.search(r"const PACKED_LEVEL0_RECORD_ALIGN_WORDS:\s*usize\s*=\s*(\d+);", src).group(1))
    new = attempt("new", lambda: fn_body(src, "PackedLevel0", "new"))
    cap1 = attempt("cap", lambda: tr(let_of(new, "cap"), {"cap": "cap0"}))
    dim1 = attempt("dimension", lambda: tr(let_of(new, "dimension"), {"dimension": "dim0"}))
    vow = attempt("vector_offset_words", lambda: tr(let_of(new, "vector_offset_words"), ren))
    rw = attempt("record_words", lambda: tr(let_of(new, "record_words"), dict(ren, vector_offset_words="(vectorOffsetWords cap)")))
    selfren = dict(ren, record_words="rw", vector_offset_words="vow", dimension="dimension", cap="cap",
                   dense_id="dense", idx="idx")
    lenb = attempt("len", lambda: tr(fn_body(src, "PackedLevel0", "len").strip(), {"record_words": "rw", "data.len": "dataLen"}))
    cu = attempt("count_unchecked", lambda: tr(let_of(fn_body(src, "PackedLevel0", "count_unchecked"), "start"), selfren))
    cub = attempt("count_unchecked access", lambda: re.search(r"get_unchecked\(([^)]+)\)", fn_body(src, "PackedLevel0", "count_unchecked")).group(1))
    nu_body = attempt("neighbor_unchecked", lambda: fn_body(src, "PackedLevel0", "neighbor_unchecked"))
    nu_start = attempt("neighbor start", lambda: tr(let_of(nu_body, "start"), selfren))
    nu_acc = attempt("neighbor access", lambda: tr(re.search(r"get_unchecked\(([^)]+)\)", nu_body).group(1), dict(selfren, start="(%s)" % nu_start)))
    vu_body = attempt("vector_at_unchecked", lambda: fn_body(src, "PackedLevel0", "vector_at_unchecked"))
    vu_start = attempt("vector start", lambda: tr(let_of(vu_body, "start"), selfren))
    vu_len = attempt("vector len", lambda: tr(re.search(r"from_raw_parts\(\s*ptr\s*,\s*([^)]+)\)", vu_body).group(1), selfren))
    if not re.search(r"self\.data\.as_ptr\(\)\.add\(start\)", vu_body if isinstance(vu_body, str) else ""):
        problems.append("vector_at_unchecked: pointer is not data.as_ptr().add(start)")
    if cub.strip() != "start":
        problems.append("count_unchecked: accesses %s, expected start" % cub)
    pn = attempt("push_node", lambda: fn_body(src, "PackedLevel0", "push_node"))
    grow = attempt("push_node growth", lambda: tr(re.search(r"repeat_n\(\s*0u32\s*,\s*([^)]+)\)", pn).group(1), selfren))
    ns = attempt("node_start", lambda: fn_body(src, "PackedLevel0", "node_start"))
    if not re.search(r"if\s+dense\s*>=\s*self\.len\(\)\s*\{\s*return None;", ns):
        problems.append("node_start: bounds refusal `dense >= self.len()` not found")
    # visited bitset
    prep = attempt("prepare", lambda: fn_body(src, "FlatSearchScratch", "prepare"))
    reqw = attempt("required_words", lambda: tr(let_of(prep, "required_words"), {"node_count": "nodeCount"}))
    if not re.search(r"if\s+self\.visited_bits\.len\(\)\s*<\s*required_words\s*\{\s*self\.visited_bits\.resize\(required_words,\s*0\)", prep if isinstance(prep, str) else ""):
        problems.append("prepare: visited_bits is not grown to required_words")
    mu = attempt("mark_if_unvisited_unchecked", lambda: fn_body(src, "FlatSearchScratch", "mark_if_unvisited_unchecked"))
    word = attempt("word", lambda: tr(let_of(mu, "word"), {"idx": "dense"}))
    if not re.search(r"get_unchecked_mut\(word\)", mu if isinstance(mu, str) else ""):
        problems.append("mark_if_unvisited_unchecked: access is not visited_bits[word]")
    guarded, relied = lint_unchecked(src, problems)
    try:
        idx_sites, idx_unguarded = lint_neighbor_index(src)
    except Exception as e:          # noqa
        problems.append("neighbor index lint: %s" % e)
        idx_sites, idx_unguarded = [], []
    padd_bounded, padd_unbounded = lint_pointer_add(src)
    rp_body = attempt("record_ptr", lambda: fn_body(src, "PackedLevel0", "record_ptr"))
    rp_start = attempt("record_ptr start", lambda: tr(let_of(rp_body, "start"), selfren))
    if not idx_sites and not idx_unguarded:
        problems.append("neighbor index lint: no neighbor_unchecked call site found")

    L = ["/-", "GENERATED by translators/xlate_packed.py from /repo/engine/src/ann_backend.rs — do not edit.",
         "`saturating_*` is translated as the exact operation (overflow of usize is not modelled);",
         "`as usize` from u32 is value-preserving.", "-/", "namespace KyroModel.Packed", "",
         "def divCeil (a b : Nat) : Nat := (a + b - 1) / b",
         "def alignWords : Nat := %s" % align,
         "/-- `PackedLevel0::new`: the clamped cap -/", "def capOf (cap0 : Nat) : Nat := %s" % cap1,
         "def dimOf (dim0 : Nat) : Nat := %s" % dim1,
         "def vectorOffsetWords (cap : Nat) : Nat := %s" % vow,
         "def recordWords (cap dimension : Nat) : Nat := %s" % rw,
         "/-- words appended by one `push_node` -/", "def pushGrowth (rw : Nat) : Nat := %s" % grow,
         "/-- `PackedLevel0::len` -/", "def nodeLen (dataLen rw : Nat) : Nat := %s" % lenb,
         "/-- word read by `count_unchecked` -/", "def countIdx (rw dense : Nat) : Nat := %s" % cu,
         "/-- word read by `neighbor_unchecked` -/", "def neighborIdx (rw dense idx : Nat) : Nat := %s" % nu_acc,
         "/-- first word and length of the slice built by `vector_at_unchecked` -/",
         "def vectorStart (rw vow dense : Nat) : Nat := %s" % vu_start,
         "def vectorLen (dimension : Nat) : Nat := %s" % vu_len,
         "/-- `FlatSearchScratch::prepare` sizes the bitset to this many words -/",
         "def requiredWords (nodeCount : Nat) : Nat := %s" % reqw,
         "/-- word touched by `mark_if_unvisited_unchecked` -/", "def visitedWord (dense : Nat) : Nat := %s" % word,
         "",
         "def guardedSites : List String := [%s]" % ", ".join('"%s"' % g for g in guarded),
         "def callerArgumentSites : List String := [%s]" % ", ".join('"%s"' % g for g in relied),
         "/-- unchecked accesses that use a neighbour id read from a record without first comparing it with `node_count` -/",
         "def unguardedNeighbourSites : List String := [%s]" % ", ".join('"%s"' % g for g in relied if re.search(r"\((nbr|neighbor|next\d*)\)$", g)),
         "/-- (index expression, dominating bound) of every `neighbor_unchecked(d, E)` call: E < the record's own count -/",
         "def neighbourIndexSites : List (String × String) := [%s]" % ", ".join('("%s", "%s")' % x for x in idx_sites),
         "/-- `neighbor_unchecked` calls whose index is not bounded by the record's count -/",
         "def unguardedIndexSites : List String := [%s]" % ", ".join('"%s"' % g.replace('"', "'") for g in idx_unguarded),
         "/-- first word of the record `record_ptr` points at -/",
         "def recordPtrStart (rw dense : Nat) : Nat := %s" % rp_start,
         "/-- raw-pointer `.add(` sites with a bounds theorem -/",
         "def boundedPointerAddSites : List String := [%s]" % ", ".join('"%s"' % g for g in padd_bounded),
         "/-- raw-pointer `.add(` sites without one (in-bounds pointer arithmetic is required even when nothing is dereferenced) -/",
         "def unboundedPointerAddSites : List String := [%s]" % ", ".join('"%s"' % g.replace('"', "'") for g in padd_unbounded),
         "def translatorProblems : List String := [%s]" % ", ".join('"%s"' % p.replace('"', "'") for p in problems),
         "", "end KyroModel.Packed", ""]
    text = "\n".join(L)
    os.makedirs(os.path.dirname(OUT), exist_ok=True)
    old = open(OUT).read() if os.path.exists(OUT) else None
    if old != text:
        open(OUT, "w").write(text)
    print("packed: guarded=%d caller-argument=%d index-sites=%d index-unguarded=%d ptr-add=%d/%d problems=%d" % (len(guarded), len(relied), len(idx_sites), len(idx_unguarded), len(padd_bounded), len(padd_bounded) + len(padd_unbounded), len(problems)))
    for p in problems:
        print("PROBLEM:", p)


if __name__ == "__main__":
    main()
