#!/usr/bin/env python3
"""Translator: every `unsafe fn` kernel of the CURRENT /repo/engine/src/simd.rs ->
lean/KyroModel/Simd/Generated.lean: one bounds obligation per raw-pointer vector load,

    ∀ len i, lo(len) ≤ i → i < hi(len) → offset(i) + lanes ≤ len        (closed by `omega`)

for EVERY length — which is the "not a multiple of the SIMD width" clause.  Also checked
syntactically (reported in the generated header, failing closed): every `_entry` wrapper passes
`a.len()` / `v.len()` as the kernel's `len`; every public two-slice function asserts equal
lengths before dispatch.  Python 3 stdlib only."""
import os, re, sys

SRC = "/repo/engine/src/simd.rs"
OUT = os.path.join(os.path.dirname(os.path.dirname(os.path.abspath(__file__))),
                   "lean", "KyroModel", "Simd", "Generated.lean")

LANES = {"_mm_loadu_ps": 4, "_mm256_loadu_ps": 8, "_mm512_loadu_ps": 16, "vld1q_f32": 4,
         "_mm_load_ps": 4, "_mm256_load_ps": 8, "_mm512_load_ps": 16}


def match_close(s, i, op, cl):
    depth = 0
    while i < len(s):
        if s[i] == op:
            depth += 1
        elif s[i] == cl:
            depth -= 1
            if depth == 0:
                return i
        i += 1
    raise ValueError("unbalanced")


def strip_comments(s):
    s = re.sub(r"//[^\n]*", "", s)
    return re.sub(r"/\*.*?\*/", "", s, flags=re.S)


def to_lean(expr, env):
    """Rust usize expression over identifiers/literals/+ - * / and parens -> Lean Nat term with
    let-bound names inlined.  Returns None if it contains anything else."""
    e = expr.strip()
    e = re.sub(r"\b(\w+)\.len\(\)", lambda m: "len", e)        # every slice has length `len` (checked separately)
    toks = re.findall(r"\d+|\w+|[()+\-*/]", e)
    if "".join(toks) != re.sub(r"\s+", "", e):
        return None
    out = []
    for t in toks:
        if re.fullmatch(r"\d+", t) or t in "()+-*/":
            out.append(t)
        elif t in ("len", "i"):
            out.append(t)
        elif t in env:
            sub = to_lean(env[t], {k: v for k, v in env.items() if k != t})
            if sub is None:
                return None
            out.append("(" + sub + ")")
        else:
            return None
    return " ".join(out)


def kernels(src):
    res = []
    for m in re.finditer(r"unsafe fn (\w+)\s*\(([^)]*)\)[^{]*\{", src):
        name, params = m.group(1), m.group(2)
        j = m.end() - 1
        k = match_close(src, j, "{", "}")
        res.append((name, params, src[j + 1:k]))
    return res


def analyse(name, params, body, problems):
    """returns list of obligations (lo, hi, offset, lanes, source)"""
    env = {}
    obligations = []
    # top-level lets (before/among loops)
    pos = 0
    # walk the body sequentially: lets at depth 0, for-loops with their own lets
    i, n = 0, len(body)
    while i < n:
        m = re.compile(r"\s*let\s+(?:mut\s+)?(\w+)\s*(?::\s*[\w<>\[\]; ]+)?=\s*([^;]+);").match(body, i)
        if m:
            env[m.group(1)] = m.group(2).strip()
            i = m.end(); continue
        m = re.compile(r"\s*for\s+(\w+)\s+in\s+([^{]+)\{").match(body, i)
        if m:
            var, rng = m.group(1), m.group(2).strip()
            j = m.end() - 1
            k = match_close(body, j, "{", "}")
            inner = body[j + 1:k]
            i = k + 1
            step = None
            sm = re.fullmatch(r"\((.+)\)\.step_by\((\d+)\)", rng)
            if sm:
                rng, step = sm.group(1).strip(), int(sm.group(2))
            if ".." not in rng or "step_by" in rng or "iter" in rng or "&" in rng:
                # not an index loop (e.g. `for &x in v`): only safe accesses possible
                if re.search(r"as_ptr\(\)|get_unchecked", inner):
                    problems.append("%s: raw access inside a non-index loop `%s`" % (name, rng))
                continue
            lo, hi = rng.split("..", 1)
            lo, hi = lo.strip().strip("()"), hi.strip().strip("()")
            lenv = dict(env)
            for lm in re.finditer(r"let\s+(?:mut\s+)?(\w+)\s*(?::\s*\w+\s*)?=\s*([^;]+);", inner):
                if not re.search(r"_mm|vld|as_ptr", lm.group(2)):
                    lenv[lm.group(1)] = lm.group(2).strip()
            if var != "i":
                lenv_i = {k2: re.sub(r"\b%s\b" % var, "i", v) for k2, v in lenv.items()}
                inner_i = re.sub(r"\b%s\b" % var, "i", inner)
            else:
                lenv_i, inner_i = lenv, inner
            llo, lhi = to_lean(lo, env), to_lean(hi, env)
            for am in re.finditer(r"(\w+)\(\s*(\w+)\.as_ptr\(\)\.add\(([^)]*(?:\([^)]*\))?[^)]*)\)", inner_i):
                intr, arr, off = am.group(1), am.group(2), am.group(3)
                if intr not in LANES:
                    problems.append("%s: unknown intrinsic `%s` on a raw pointer" % (name, intr)); continue
                loff = to_lean(off, lenv_i)
                if None in (llo, lhi, loff):
                    problems.append("%s: could not translate `%s in %s..%s`, offset `%s`" % (name, var, lo, hi, off)); continue
                obligations.append((llo, lhi, loff, LANES[intr], "%s(%s.as_ptr().add(%s)) in for %s in %s%s" % (intr, arr, off.strip(), var, rng, "" if step is None else " step %d" % step), step))
            for gm in re.finditer(r"(\w+)\.get_unchecked\(([^)]+)\)", inner_i):
                loff = to_lean(gm.group(2), lenv_i)
                if None in (llo, lhi, loff):
                    problems.append("%s: could not translate get_unchecked(%s)" % (name, gm.group(2))); continue
                obligations.append((llo, lhi, loff, 1, "%s.get_unchecked(%s)" % (gm.group(1), gm.group(2)), step))
            continue
        # skip one statement / token
        nxt = body.find(";", i)
        brace = body.find("{", i)
        if brace != -1 and (nxt == -1 or brace < nxt):
            k = match_close(body, brace, "{", "}")
            seg = body[i:k + 1]
            if re.search(r"as_ptr\(\)\.add|get_unchecked", seg) and not re.search(r"tmp\.as_(mut_)?ptr", seg):
                problems.append("%s: raw access in an unrecognised block" % name)
            i = k + 1
        elif nxt == -1:
            break
        else:
            seg = body[i:nxt]
            if re.search(r"\.as_ptr\(\)\.add\(|get_unchecked", seg):
                problems.append("%s: raw access outside a loop: %s" % (name, seg.strip()[:60]))
            i = nxt + 1
    return obligations


def check_wrappers(src, problems):
    facts = []
    for m in re.finditer(r"fn (\w+_entry)\s*\(([^)]*)\)[^{]*\{", src):
        j = m.end() - 1
        k = match_close(src, j, "{", "}")
        body = src[j + 1:k]
        for c in re.finditer(r"unsafe\s*\{\s*(\w+)\((.*?)\)\s*\}", body, flags=re.S):
            args = [a.strip() for a in c.group(2).split(",")]
            if len(args) == 3 and args[2] != args[0] + ".len()":
                problems.append("%s passes `%s` as len (expected %s.len())" % (m.group(1), args[2], args[0]))
            if len(args) == 3 and not re.search(r"assert_eq!\(\s*a\.len\(\),\s*b\.len\(\)", body):
                problems.append("%s has no (debug_)assert_eq!(a.len(), b.len())" % m.group(1))
            if len(args) not in (1, 3):
                problems.append("%s: unexpected kernel call shape `%s`" % (m.group(1), c.group(0)))
            facts.append("%s -> %s(%s)" % (m.group(1), c.group(1), ", ".join(args)))
    for m in re.finditer(r"pub fn (\w+)\s*\(\s*a: &\[f32\],\s*b: &\[f32\]\s*\)[^{]*\{", src):
        j = m.end() - 1
        k = match_close(src, j, "{", "}")
        body = src[j + 1:k]
        if not re.search(r"assert_eq!\(\s*a\.len\(\),\s*b\.len\(\)", body) and not re.search(r"a\.len\(\)\s*!=\s*b\.len\(\)", body):
            # may delegate to another public function that asserts
            if not re.search(r"\b(dot_f32|l2_distance_sq_f32|l2_distance_f32|cosine_similarity_f32)\(a, b\)", body):
                problems.append("public fn %s does not check a.len() == b.len() before dispatch" % m.group(1))
        facts.append("pub fn %s checks equal lengths" % m.group(1))
    return facts


def main():
    src = strip_comments(open(SRC).read())
    problems, allob = [], []
    for name, params, body in kernels(src):
        obs = analyse(name, params, body, problems)
        allob.append((name, obs))
    nsites = 0
    for name, params, body in kernels(src):
        nsites += len(re.findall(r"\.as_ptr\(\)\.add\(|get_unchecked", body))
    nob = sum(len(o) for _, o in allob)
    if nsites != nob:
        problems.append("raw access sites in unsafe kernels: %d, obligations generated: %d" % (nsites, nob))
    facts = check_wrappers(src, problems)
    L = ["/-", "GENERATED by translators/xlate_simd.py from /repo/engine/src/simd.rs — do not edit.",
         "One theorem per raw-pointer vector load of each `unsafe fn` kernel.", "wrapper facts:"]
    L += ["  " + f for f in facts]
    L += ["-/", "set_option linter.unusedVariables false", "namespace KyroModel.Simd", ""]
    names = []
    for name, obs in allob:
        for idx, (lo, hi, off, lanes, srcx, step) in enumerate(obs):
            tn = "%s_load_%d" % (name, idx)
            names.append(tn)
            L.append("/-- `%s` -/" % srcx.replace("-/", "- /"))
            hs = "" if step is None else " (hstep : (i - (%s)) %% %d = 0)" % (lo, step)
            L.append("theorem %s (len i : Nat) (hlo : %s ≤ i) (hhi : i < %s)%s : %s + %d ≤ len := by omega" % (tn, lo, hi, hs, off, lanes))
            L.append("")
    L.append("def kernelCount : Nat := %d" % len(allob))
    L.append("def obligationCount : Nat := %d" % len(names))
    L.append("def obligationNames : List String := [%s]" % ", ".join('"%s"' % n for n in names))
    L.append("/-- problems the translator could not resolve (must be empty) -/")
    L.append("def translatorProblems : List String := [%s]" % ", ".join('"%s"' % p.replace('"', "'") for p in problems))
    L.append("")
    L.append("end KyroModel.Simd")
    text = "\n".join(L) + "\n"
    os.makedirs(os.path.dirname(OUT), exist_ok=True)
    old = open(OUT).read() if os.path.exists(OUT) else None
    if old != text:
        open(OUT, "w").write(text)
    print("kernels=%d obligations=%d problems=%d" % (len(allob), len(names), len(problems)))
    for p in problems:
        print("PROBLEM:", p)


if __name__ == "__main__":
    main()
