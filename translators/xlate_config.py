#!/usr/bin/env python3
"""Translator: `KyroDbConfig::validate` (and `is_loopback_host`) in the CURRENT
/repo/engine/src/config.rs  ->  lean/KyroModel/Config/Generated.lean.

The output is a Lean definition `validate : Atoms → Bool` = the conjunction, in source order, of
every guard of the Rust function under its enclosing conditions.  Safety-relevant atomic
conditions are recognised by their normalised source text and mapped to named fields of
`Atoms`; every other atomic condition becomes an opaque `a.other n` (sound for the theorem,
which quantifies over all of them).  Anything that cannot be parsed becomes an opaque atom too
(or, for statements, aborts the translation with a message): the translator fails closed.
Python 3 stdlib only."""
import os, re, sys

SRC = "/repo/engine/src/config.rs"
OUT = os.path.join(os.path.dirname(os.path.dirname(os.path.abspath(__file__))),
                   "lean", "KyroModel", "Config", "Generated.lean")


class XlateError(Exception):
    pass


def strip_comments(s):
    out, i, n = [], 0, len(s)
    in_str = False
    while i < n:
        c = s[i]
        if in_str:
            out.append(c)
            if c == "\\":
                out.append(s[i + 1]); i += 2; continue
            if c == '"':
                in_str = False
            i += 1; continue
        if c == '"':
            in_str = True; out.append(c); i += 1; continue
        if s.startswith("//", i):
            while i < n and s[i] != "\n":
                i += 1
            continue
        if s.startswith("/*", i):
            j = s.index("*/", i); i = j + 2; continue
        out.append(c); i += 1
    return "".join(out)


def match_close(s, i, op, cl):
    """s[i] == op; returns index of the matching close (string-aware)"""
    depth, n, in_str = 0, len(s), False
    while i < n:
        c = s[i]
        if in_str:
            if c == "\\":
                i += 2; continue
            if c == '"':
                in_str = False
        elif c == '"':
            in_str = True
        elif c == op:
            depth += 1
        elif c == cl:
            depth -= 1
            if depth == 0:
                return i
        i += 1
    raise XlateError("unbalanced %s" % op)


def fn_body(src, sig):
    i = src.find(sig)
    if i < 0:
        raise XlateError("function not found: " + sig)
    j = src.index("{", i)
    k = match_close(src, j, "{", "}")
    return src[j + 1:k]


def norm(s):
    return re.sub(r"\s+", "", s)


def split_top(s, sep):
    """split on a top-level separator string (outside (), [], {}, strings)"""
    parts, depth, i, cur, in_str = [], 0, 0, [], False
    n = len(s)
    while i < n:
        c = s[i]
        if in_str:
            cur.append(c)
            if c == "\\":
                cur.append(s[i + 1]); i += 2; continue
            if c == '"':
                in_str = False
            i += 1; continue
        if c == '"':
            in_str = True; cur.append(c); i += 1; continue
        if c in "([{":
            depth += 1
        elif c in ")]}":
            depth -= 1
        if depth == 0 and s.startswith(sep, i):
            parts.append("".join(cur)); cur = []; i += len(sep); continue
        cur.append(c); i += 1
    parts.append("".join(cur))
    return parts


# ------------------------------------------------------------------------------------------
# statements

def parse_block(body):
    """-> list of ('let', name, expr) | ('ensure', cond) | ('bail',) | ('if', cond, block) |
               ('iflet', pattern_text, block)"""
    stmts, i, n = [], 0, len(body)
    while i < n:
        while i < n and body[i].isspace():
            i += 1
        if i >= n:
            break
        rest = body[i:]
        if rest.startswith("let "):
            j = body.index(";", i) if True else i
            # `let` may contain closures/blocks: find the top-level ';'
            segs = split_top(body[i:], ";")
            stmt = segs[0]
            m = re.match(r"let\s+(\w+)\s*(?::[^=]+)?=\s*(.*)$", stmt, re.S)
            if not m:
                raise XlateError("unparsed let: " + stmt[:80])
            stmts.append(("let", m.group(1), m.group(2).strip()))
            i += len(stmt) + 1
        elif rest.startswith("anyhow::ensure!"):
            j = body.index("(", i)
            k = match_close(body, j, "(", ")")
            args = split_top(body[j + 1:k], ",")
            stmts.append(("ensure", args[0].strip()))
            i = k + 1
            while i < n and body[i] in "; \n":
                i += 1
        elif rest.startswith("anyhow::bail!"):
            j = body.index("(", i)
            k = match_close(body, j, "(", ")")
            stmts.append(("bail",))
            i = k + 1
            while i < n and body[i] in "; \n":
                i += 1
        elif rest.startswith("eprintln!") or rest.startswith("warn!") or rest.startswith("info!"):
            j = body.index("(", i)
            k = match_close(body, j, "(", ")")
            i = k + 1
            while i < n and body[i] in "; \n":
                i += 1
        elif rest.startswith("if "):
            j = i + 3
            # condition runs to the top-level '{'
            depth, k, in_str = 0, j, False
            while True:
                c = body[k]
                if in_str:
                    if c == "\\":
                        k += 2; continue
                    if c == '"':
                        in_str = False
                elif c == '"':
                    in_str = True
                elif c in "([":
                    depth += 1
                elif c in ")]":
                    depth -= 1
                elif c == "{" and depth == 0:
                    break
                k += 1
            cond = body[j:k].strip()
            e = match_close(body, k, "{", "}")
            inner = parse_block(body[k + 1:e])
            i = e + 1
            after = body[i:].lstrip()
            if after.startswith("else"):
                raise XlateError("`else` branch in validate(): extend the translator")
            if cond.startswith("let "):
                stmts.append(("iflet", cond, inner))
            else:
                stmts.append(("if", cond, inner))
        elif rest.startswith("Ok(())"):
            i += len("Ok(())")
        else:
            raise XlateError("unrecognised statement: " + rest[:80].replace("\n", " "))
    return stmts


# ------------------------------------------------------------------------------------------
# expressions -> boolean structure over atoms

ENV_NORMALISED = norm("self.environment.environment_type.trim().to_ascii_lowercase()")

NAMED = {
    norm("matches!(self.cache.strategy, CacheStrategy::Learned)"): "a.strategyLearned",
    norm("matches!(self.persistence.fsync_policy, FsyncPolicy::None)"): "a.fsyncNone",
    norm("self.persistence.snapshot_interval_mutations == 0"): "a.snapZero",
    norm("matches!(self.persistence.recovery_mode, RecoveryMode::BestEffort)"): "a.recoveryBestEffort",
    norm("self.auth.enabled"): "a.authEnabled",
    norm("self.rate_limit.enabled"): "a.rateLimitEnabled",
    norm("self.server.observability_auth != ObservabilityAuthMode::Disabled"): "a.obsAuthOn",
    norm("self.persistence.allow_fresh_start_on_recovery_failure"): "a.freshStart",
    norm("self.server.tls.enabled"): "a.tlsEnabled",
    norm("is_loopback_host(&self.server.host)"): "a.grpcLoopback",
}
HTTP_HOST_LET = norm("self.server.http_host.as_deref().unwrap_or(&self.server.host)")


class Ctx:
    def __init__(self):
        self.lets = {}
        self.others = []          # opaque atom source texts
        self.env_ok = False

    def other(self, text):
        t = norm(text)
        if t not in self.others:
            self.others.append(t)
        return "a.other %d" % self.others.index(t)


def strip_parens(e):
    e = e.strip()
    while e.startswith("(") and match_close(e, 0, "(", ")") == len(e) - 1:
        e = e[1:-1].strip()
    return e


def xl(e, ctx):
    """Rust boolean expression -> Lean Bool expression"""
    e = strip_parens(e)
    parts = split_top(e, "||")
    if len(parts) > 1:
        return "(" + " || ".join(xl(p, ctx) for p in parts) + ")"
    parts = split_top(e, "&&")
    if len(parts) > 1:
        return "(" + " && ".join(xl(p, ctx) for p in parts) + ")"
    if e.startswith("!") and not e.startswith("!="):
        return "(!" + xl(e[1:], ctx) + ")"
    ne = norm(e)
    # local boolean variables are inlined
    if re.fullmatch(r"\w+", ne) and ne in ctx.lets:
        return xl(ctx.lets[ne], ctx)
    # environment tests
    m = re.fullmatch(r'environment_type(==|!=)"(\w+)"', ne)
    if m and ctx.env_ok:
        envs = {"production": ".production", "pilot": ".pilot", "benchmark": ".benchmark"}
        if m.group(2) in envs:
            t = "(a.env == %s)" % envs[m.group(2)]
            return t if m.group(1) == "==" else "(!%s)" % t
    m = re.fullmatch(r'matches!\(environment_type\.as_str\(\),((?:"\w+"\|?)+)\)', ne)
    if m and ctx.env_ok:
        alts = re.findall(r'"(\w+)"', m.group(1))
        envs = {"production": ".production", "pilot": ".pilot", "benchmark": ".benchmark"}
        if all(x in envs for x in alts):
            return "(" + " || ".join("(a.env == %s)" % envs[x] for x in alts) + ")"
    if ne in NAMED:
        return NAMED[ne]
    if ne == "is_loopback_host(http_host)" and norm(ctx.lets.get("http_host", "")) == HTTP_HOST_LET:
        return "a.httpLoopback"
    return "(" + ctx.other(e) + ")"


def collect(stmts, ctx, guards, conds):
    for st in stmts:
        if st[0] == "let":
            name, expr = st[1], st[2]
            if name == "environment_type":
                if norm(expr) == ENV_NORMALISED:
                    ctx.env_ok = True
                else:
                    ctx.env_ok = False
            ctx.lets[name] = expr
        elif st[0] == "ensure":
            guards.append((list(conds), xl(st[1], ctx), st[1]))
        elif st[0] == "bail":
            guards.append((list(conds), "false", "bail!"))
        elif st[0] == "if":
            collect(st[2], ctx, guards, conds + [xl(st[1], ctx)])
        elif st[0] == "iflet":
            collect(st[2], ctx, guards, conds + ["(" + ctx.other(st[1]) + ")"])


def translate(src_text):
    src = strip_comments(src_text)
    body = fn_body(src, "pub fn validate(&self) -> Result<()>")
    stmts = parse_block(body)
    ctx = Ctx()
    guards = []
    collect(stmts, ctx, guards, [])
    # is_loopback_host: the final disjunction over the normalised host
    lb = fn_body(src, "fn is_loopback_host(host: &str) -> bool")
    last = [l for l in split_top(lb, ";") if l.strip()][-1].strip()
    eqs = re.findall(r'normalized\s*==\s*"([^"]*)"', last)
    pres = re.findall(r'normalized\.starts_with\("([^"]*)"\)', last)
    rebuilt = " || ".join(['normalized == "%s"' % x for x in eqs] + ['normalized.starts_with("%s")' % x for x in pres])
    if norm(rebuilt) != norm(last):
        raise XlateError("is_loopback_host: final expression not a disjunction of ==/starts_with: " + last)
    return guards, ctx, eqs, pres


def emit(guards, ctx, eqs, pres):
    L = []
    L.append("/-")
    L.append("GENERATED by translators/xlate_config.py from /repo/engine/src/config.rs — do not edit.")
    L.append("`validate` is the conjunction, in source order, of every guard of `KyroDbConfig::validate`")
    L.append("under its enclosing conditions; opaque atoms:")
    for i, t in enumerate(ctx.others):
        L.append("  other %d := %s" % (i, t.replace("-/", "- /")))
    L.append("-/")
    L.append("namespace KyroModel.Config")
    L.append("")
    L.append("inductive Env | production | pilot | benchmark | other")
    L.append("deriving DecidableEq, Repr")
    L.append("")
    L.append("structure Atoms where")
    L.append("  env : Env                       -- environment.type after trim + to_ascii_lowercase")
    for f in ["strategyLearned", "fsyncNone", "snapZero", "recoveryBestEffort", "authEnabled",
              "rateLimitEnabled", "obsAuthOn", "freshStart", "tlsEnabled", "grpcLoopback", "httpLoopback"]:
        L.append("  %s : Bool" % f)
    L.append("  other : Nat → Bool")
    L.append("")
    L.append("def numOther : Nat := %d" % len(ctx.others))
    L.append("")
    terms = []
    for conds, g, srcg in guards:
        if conds:
            t = "(" + " || ".join("(!%s)" % c for c in conds) + " || " + g + ")"
        else:
            t = g
        terms.append(t)
    named_fields = ["a.env", "a.strategyLearned", "a.fsyncNone", "a.snapZero", "a.recoveryBestEffort",
                    "a.authEnabled", "a.rateLimitEnabled", "a.obsAuthOn", "a.freshStart", "a.tlsEnabled",
                    "a.grpcLoopback", "a.httpLoopback"]
    named = [t for t in terms if any(f in t for f in named_fields)]
    plain = [t for t in terms if t not in named]
    L.append("/-- guards that mention a safety-relevant atom -/")
    L.append("def namedGuards (a : Atoms) : List Bool := [")
    L.append("  " + ",\n  ".join(named))
    L.append("]")
    L.append("")
    L.append("/-- all remaining guards (over opaque atoms only) -/")
    L.append("def plainGuards (a : Atoms) : List Bool := [")
    L.append("  " + ",\n  ".join(plain))
    L.append("]")
    L.append("")
    L.append("def validate (a : Atoms) : Bool := (namedGuards a).all id && (plainGuards a).all id")
    L.append("")
    neg = sorted({int(m) for _, g, _ in guards for m in re.findall(r"^\(!\(a\.other (\d+)\)\)$", g)})
    L.append("/-- a benign valuation of the opaque atoms (atoms that must be false: those guarded as `!atom`) -/")
    L.append("def benignOther (n : Nat) : Bool := !(" + (" || ".join("n == %d" % k for k in neg) or "false") + ")")
    L.append("")
    L.append("def numGuards : Nat := %d" % len(guards))
    L.append("")
    L.append("/-- `is_loopback_host` after its normalisation chain (trim, brackets, zone, lower-case) -/")
    disj = " || ".join(['s == "%s"' % x for x in eqs] + ['s.startsWith "%s"' % x for x in pres]) or "false"
    L.append("def isLoopbackNormalized (s : String) : Bool := " + disj)
    L.append("")
    L.append("def loopbackEquals : List String := [%s]" % ", ".join('"%s"' % x for x in eqs))
    L.append("def loopbackPrefixes : List String := [%s]" % ", ".join('"%s"' % x for x in pres))
    L.append("")
    L.append("end KyroModel.Config")
    return "\n".join(L) + "\n"


def main():
    src = open(SRC).read()
    try:
        guards, ctx, eqs, pres = translate(src)
        text = emit(guards, ctx, eqs, pres)
    except XlateError as e:
        # fail closed: emit a file without the named definitions so that the theorem cannot elaborate
        text = "/- GENERATED: translation FAILED: %s -/\nnamespace KyroModel.Config\nend KyroModel.Config\n" % str(e).replace("-/", "- /")
        sys.stderr.write("xlate_config: %s\n" % e)
    os.makedirs(os.path.dirname(OUT), exist_ok=True)
    old = open(OUT).read() if os.path.exists(OUT) else None
    if old != text:
        open(OUT, "w").write(text)
    print("guards=%d others=%d" % (text.count("||") + 1, 0) if False else "written" if old != text else "unchanged")


if __name__ == "__main__":
    main()
